/-
C18 - basic types shared by the generated signature table (Gen/Signatures.lean)
and the model (Model/C18.lean).  Core Lean only.
-/
namespace Rig.C18

/-- A Python value as far as the context mechanism can tell values apart.
`required` is the `Required` sentinel of rig/utils/contexts.py (a value like any
other for Python: it can be a default, sit in a context or be passed explicitly);
`dyn` stands for "a value computed from data" in the per-method wire rules. -/
inductive Val where
  | required
  | int (i : Int)
  | none
  | bool (b : Bool)
  | other (repr : String)
  | dyn
  /-- a list / tuple of ints (boards given as an iterable to `BMPController.set_power` / `set_led`) -/
  | ints (l : List Int)
  deriving Repr, DecidableEq, Inhabited

/-- insertion-ordered `dict` with string keys: association list without duplicate keys -/
abbrev Dict := List (String × Val)

/-- What `inspect.getfullargspec(f)[:4]` and the decorator's keyword arguments say
about one `@ContextMixin.use_contextual_arguments(...)` method. -/
structure Sig where
  cls : String
  name : String
  /-- positional-or-keyword parameter names, including `self` -/
  argNames : List String
  /-- the trailing defaults (un-padded, as in the source) -/
  defaults : List Val
  hasVarargs : Bool
  hasKeywords : Bool
  /-- `**kw_only_args_defaults` of the decorator call, in source order -/
  kwOnly : Dict
  deriving Repr, DecidableEq, Inhabited

/-! ## vocabulary of the per-method wire rules

Shared by the hand-written transcription (`bodyOf`, Model/C18.lean) and the table the translator
extracts from the source on every run (`Gen/C18Bodies.lean`, harness/gen/c18.py). -/

inductive Ex where
  | ref (n : String)     -- parameter of the method
  | lit (v : Val)
  | dyn                  -- computed from data (addresses, table keys, discovered chips)
  | mask (n : String)    -- `1 << parameter`, or `sum(1 << b for b in parameter)` when it is an iterable
  | first (n : String)   -- the parameter, or its first element when it is an iterable (`boards[0]`)
  deriving Repr, DecidableEq

inductive Op where
  /-- `self._send_scp(x, y, p, cmd, ...)`; `app`: the application id the command carries, if the command carries one -/
  | scp (x y p : Ex) (app : Option Ex)
  /-- `self._get_connection(x, y).read/write(.., x, y, p, ..)` -/
  | mem (x y p : Ex)
  /-- `self.m(*pos, **kw)` - a decorated method, resolved again against the same stack -/
  | call (m : String) (pos : List Ex) (kw : List (String × Ex))
  /-- BMP: `self._send_scp(cabinet, frame, board, cmd, ...)`; `mask`: the board bit mask carried in arg2 -/
  | bmp (c f b : Ex) (mask : Option Ex)
  /-- a send / inner call the translator found in the source but could not classify (never used by the
  hand-written rules): it yields a request about which nothing is known, so every obligation over the
  generated table fails -/
  | unknown (what : String)
  deriving Repr, DecidableEq

end Rig.C18
