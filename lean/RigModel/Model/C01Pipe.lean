/-
C01 (capstone) - the composed MODEL pipeline.

`modelPipeline` chains the stage models exactly as rig's hand-chained pipeline /
`place_and_route_wrapper` does:

    placements  = place(vertices_resources, nets, machine, constraints)        C02  seqPlace / randPlace / saPlace
    allocations = allocate(vertices_resources, nets, machine, constraints, placements)       C05  allocate
    routes      = route(vertices_resources, nets, machine, constraints, placements,
                        allocations, core_resource, radius)                    C03  routeNet per net (fixed code)
    tables      = routing_tree_to_tables(routes, net_keys)                     C10  treeTables
    tables      = minimise_tables(tables, target_lengths, methods)             C04  minimiseTables (optional)

One `Problem` (written in rig's own vocabulary: resource dictionaries, constraint objects, nets of
vertices with a key and a mask) is the input of every stage; the *bridge functions* below turn it -
and the results of the earlier stages - into the input types of each stage model:

* `vr02`, `cs02`            : Problem -> C02 (positional resource vectors; constraints of the placers);
* `input05`, `pl05`         : Problem + C02 placement -> C05 input (resource dictionaries, slices);
* `machine3`                : Problem -> C03 machine (dead chips + dead links);
* `chipOf`, `sinkOf`        : C02 placement + C05 allocation + RouteEndpointConstraints -> C03 source chip / `Sink`s
                              (what the tail of `route()` reads: `placements[sink]`, `route_to_endpoint[sink]`,
                              `allocations.get(sink, {}).get(core_resource)`);
* `toC10` / `PNet.net10`    : C03 tree -> C10 tree (Model/C01.lean);
* `tables04`                : C10 tables -> C04 entries (Model/C01.lean);
* `chipsFor`, `finalTables` : C04's `minimiseTables` identifies chips by a number: position in the table dict.

Everything that depends on set iteration order or the RNG is an oracle input (`NetOracle` per net:
iteration order of the destination set, tape of random draws, processing order of the broken
links; the placers' oracles are those of C02).  No Mathlib (the driver links this file).
-/
import RigModel.Model.Proto
import RigModel.Model.C01
import RigModel.Model.C02
import RigModel.Model.C05

namespace Rig.C01Pipe
open Rig.C01 (W Entry Tables PNet chipZ tables04 tableAt)
open Rig.C03 (Chip Machine Sink)

/-! ### the problem, in rig's vocabulary -/

/-- the constraint objects the pipeline reads -/
inductive PC where
  | loc (v : Nat) (c : Nat × Nat)                                        -- LocationConstraint
  | same (vs : List Nat)                                                 -- SameChipConstraint
  | reserve (r : Nat) (s : Rig.C05.Slice) (at_ : Option (Nat × Nat))      -- ReserveResourceConstraint
  | align (r : Nat) (a : Int)                                            -- AlignResourceConstraint
  | endpoint (v : Nat) (route : Nat)                                     -- RouteEndpointConstraint
  deriving Repr, DecidableEq

/-- `Net(source, sinks)` with its entry of `net_keys` -/
structure ANet where
  src : Nat
  sinks : List Nat
  key : W
  mask : W
  deriving Repr

structure Problem where
  /-- `vertices_resources`: {vertex: {resource: amount}}; resources are numbered `0 .. nres-1` -/
  vr : List (Nat × List (Nat × Int))
  nres : Nat
  /-- width, height, `chip_resources` (vector over the resources), exceptions, dead chips -/
  m2 : Rig.C02.Machine
  deadLinks : List (Chip × Nat)
  cs : List PC
  nets : List ANet
  /-- `core_resource` -/
  coreRes : Nat

/-! ### bridges into the stage models -/

/-- {resource: amount} -> positional vector (a missing resource counts 0, as in `subtract_resources`) -/
def resVec (nres : Nat) (rs : List (Nat × Int)) : Rig.C02.Res :=
  (List.range nres).map fun i => (rs.lookup i).getD 0

def vr02 (pb : Problem) : Rig.C02.VR := pb.vr.map fun q => (Rig.C02.Vtx.o q.1, resVec pb.nres q.2)

def PC.to02 : PC → Rig.C02.Constraint
  | .loc v c => .loc (.o v) c
  | .same vs => .same (vs.map Rig.C02.Vtx.o)
  | .reserve r s at_ => .reserve r (s.stop - s.start) at_
  | .align _ _ => .other
  | .endpoint v _ => .endpoint (.o v)

def cs02 (pb : Problem) : List Rig.C02.Constraint := pb.cs.map PC.to02

def PC.to05 : PC → Rig.C05.Constraint
  | .reserve r s at_ => .reserve r s (at_.map chipZ)
  | .align r a => .align r a
  | _ => .other

/-- positional vector -> {resource: amount} -/
def resAssoc (r : Rig.C02.Res) : List (Nat × Int) := r.zipIdx.map fun p => (p.2, p.1)

/-- the machine as `allocate` sees it -/
def m5 (pb : Problem) : Rig.C05.Machine :=
  { width := pb.m2.w, height := pb.m2.h, chipResources := resAssoc pb.m2.res,
    exceptions := pb.m2.exc.map fun e => (chipZ e.1, resAssoc e.2), dead := pb.m2.dead.map chipZ }

/-- the machine as `route` and the network see it -/
def machine3 (pb : Problem) : Machine :=
  { w := pb.m2.w, h := pb.m2.h, deadChips := pb.m2.dead.map chipZ, deadLinks := pb.deadLinks }

/-- the placement dict as `allocate` reads it (vertices of the caller only; same order) -/
def pl05 (p : Rig.C02.Placement) : List (Nat × Rig.C05.Chip) :=
  p.filterMap fun vc => match vc.1 with
    | .o n => some (n, chipZ vc.2)
    | .m _ => none

def input05 (pb : Problem) (p : Rig.C02.Placement) : Rig.C05.Input :=
  { vr := pb.vr, machine := m5 pb, constraints := pb.cs.map PC.to05, placements := pl05 p }

/-- `placements[v]` (`none` = KeyError) -/
def chipOf (p : Rig.C02.Placement) (v : Nat) : Option Chip := (Rig.C02.aget p (.o v)).map chipZ

/-- the RouteEndpointConstraints in constraint order -/
def endpoints (cs : List PC) : List (Nat × Nat) :=
  cs.filterMap fun c => match c with
    | .endpoint v r => some (v, r)
    | _ => none

/-- `route_to_endpoint.get(v)`: the dict is filled in constraint order, the last constraint wins -/
def endpointOf (cs : List PC) (v : Nat) : Option Nat := (endpoints cs).reverse.lookup v

/-- `allocations.get(v, {}).get(core_resource, None)` -/
def coresOf (A : Rig.C05.Alloc) (coreRes : Nat) (v : Nat) : Option Rig.C05.Slice :=
  (A.lookup v).bind (·.lookup coreRes)

/-- the sink vertex `v` as the tail of `route()` treats it -/
def sinkOf (pb : Problem) (p : Rig.C02.Placement) (A : Rig.C05.Alloc) (v : Nat) : Option Sink :=
  match chipOf p v with
  | none => none
  | some c =>
    match endpointOf pb.cs v with
    | some r => some { v := v, chip := c, kind := 2, a := r, b := 0 }
    | none =>
      match coresOf A pb.coreRes v with
      | some s => some { v := v, chip := c, kind := 1, a := s.start.toNat, b := s.stop.toNat }
      | none => some { v := v, chip := c, kind := 0, a := 0, b := 0 }

def sinksOf (pb : Problem) (p : Rig.C02.Placement) (A : Rig.C05.Alloc) : List Nat → Option (List Sink)
  | [] => some []
  | v :: r =>
    match sinkOf pb p A v, sinksOf pb p A r with
    | some s, some ss => some (s :: ss)
    | _, _ => none

/-- the links that carry a device: link `r` of the chip of every vertex with an (effective)
RouteEndpointConstraint to a link route -/
def devLinks (pb : Problem) (p : Rig.C02.Placement) : List (Chip × Nat) :=
  (endpoints pb.cs).filterMap fun vr =>
    match endpointOf pb.cs vr.1, chipOf p vr.1 with
    | some r, some c => if r < 6 then some (c, r) else none
    | _, _ => none

/-! ### oracle inputs and errors -/

/-- what the run of `route()` for one net depends on besides its arguments -/
structure NetOracle where
  /-- iteration order of `set(placements[sink] for sink in net.sinks)` -/
  dests : List Chip
  /-- the draws of `random.random()` / `random.randint` (scaled as in C03), this net onwards -/
  tape : Rig.C03.Tape
  /-- processing order of the broken links (`copy_and_disconnect_tree` returns a set) -/
  order : List (Chip × Chip)

inductive PErr where
  | place (e : Rig.C02.Err)
  | alloc (e : Rig.C05.Err)
  | keyError                          -- a net names a vertex without placement
  | badOracle                         -- oracle list too short / `dests` is not the set of sink chips
  | route (e : Rig.C03.Err)
  | unfold                            -- the forest does not unfold to a tree (proved impossible)
  | tables (e : Rig.C10.Err)
  | minimise (chip : Nat) (e : Rig.C04.Err)
  deriving Repr

def sameSet (a b : List Chip) : Bool := a.all b.contains && b.all a.contains

/-! ### the stages -/

/-- one iteration of `for net in nets` of `route()`, unfolded to the routing tree -/
def routeOne (pb : Problem) (p : Rig.C02.Placement) (A : Rig.C05.Alloc) (radius : Nat)
    (n : ANet) (o : NetOracle) : Except PErr PNet :=
  match chipOf p n.src, sinksOf pb p A n.sinks with
  | some src, some sinks =>
    if !(sameSet o.dests (sinks.map (·.chip))) then .error .badOracle
    else
      match Rig.C03.routeNet (machine3 pb) src o.dests radius o.tape o.order sinks false with
      | .error e => .error (.route e)
      | .ok r =>
        match Rig.C03.toTree r.forest r.leaves (r.forest.length + 1) r.root with
        | none => .error .unfold
        | some t => .ok { key := n.key, mask := n.mask, src := src, sinks := sinks, tree := t }
  | _, _ => .error .keyError

def routeAll (pb : Problem) (p : Rig.C02.Placement) (A : Rig.C05.Alloc) (radius : Nat) :
    List ANet → List NetOracle → Except PErr (List PNet)
  | [], _ => .ok []
  | _ :: _, [] => .error .badOracle
  | n :: ns, o :: os =>
    match routeOne pb p A radius n o with
    | .error e => .error e
    | .ok q =>
      match routeAll pb p A radius ns os with
      | .error e => .error e
      | .ok qs => .ok (q :: qs)

/-- the argument of C04's `minimiseTables`: chip number = position in the table dict -/
def chipsFor (T : Tables) (targets : Chip → Option Nat) : List (Nat × List Entry × Option Nat) :=
  T.zipIdx.map fun p => (p.2, p.1.2, targets p.1.1)

/-- ... and back -/
def finalTables (T : Tables) (out : List (Nat × List Entry)) : Tables :=
  out.filterMap fun y => T[y.1]?.map fun ct => (ct.1, y.2)

/-- everything the pipeline produced -/
structure Out where
  placement : Rig.C02.Placement
  alloc : Rig.C05.Alloc
  nets : List PNet
  T10 : Rig.C10.Tables
  final : Tables

/-- the stages after placement; `minimise = none`: the tables are loaded unminimised -/
def afterPlace (pb : Problem) (p : Rig.C02.Placement) (radius : Nat) (orc : List NetOracle)
    (minimise : Option (List Rig.C04.Method × (Chip → Option Nat))) : Except PErr Out :=
  match Rig.C05.allocate (input05 pb p) with
  | .error e => .error (.alloc e)
  | .ok a =>
    match routeAll pb p (Rig.C05.strip a) radius pb.nets orc with
    | .error e => .error e
    | .ok pn =>
      match Rig.C10.treeTables (pn.map PNet.net10) with
      | .error e => .error (.tables e)
      | .ok T10 =>
        match minimise with
        | none => .ok { placement := p, alloc := Rig.C05.strip a, nets := pn, T10 := T10, final := tables04 T10 }
        | some (methods, targets) =>
          match Rig.C04.minimiseTables (chipsFor (tables04 T10) targets) methods with
          | .error e => .error (.minimise e.1 e.2)
          | .ok out =>
            .ok { placement := p, alloc := Rig.C05.strip a, nets := pn, T10 := T10,
                  final := finalTables (tables04 T10) out }

/-- the placers of C02 with their oracle inputs -/
inductive Placer where
  /-- `sequential.place` with any vertex / chip order: hence `hilbert`, `rcm`, `breadth_first` -/
  | seq (vertexOrder : Option (List Rig.C02.Vtx)) (chipOrder : Option (List Rig.C02.Chip))
  | rand (picks : List Rig.C02.Chip)
  | sa (locs : List Rig.C02.Chip) (vs : List Rig.C02.Vtx) (steps : Option (List Rig.C02.Step))

def runPlacer (pb : Problem) : Placer → Except Rig.C02.Err Rig.C02.Placement
  | .seq vo co => Rig.C02.seqPlace (vr02 pb) (cs02 pb) pb.m2 vo co
  | .rand picks => Rig.C02.randPlace (vr02 pb) (cs02 pb) pb.m2 picks
  | .sa locs vs steps =>
    match Rig.C02.saPlace (vr02 pb) (cs02 pb) pb.m2 locs vs steps with
    | .ok r => .ok r.1
    | .error e => .error e

/-- **the composed model pipeline** -/
def modelPipeline (pb : Problem) (placer : Placer) (radius : Nat) (orc : List NetOracle)
    (minimise : Option (List Rig.C04.Method × (Chip → Option Nat))) : Except PErr Out :=
  match runPlacer pb placer with
  | .error e => .error (.place e)
  | .ok p => afterPlace pb p radius orc minimise

/-! ### specification vocabulary of the capstone theorem -/

open Rig.C03 (linkOk) in
/-- **The documented domain of the composed pipeline** (every restriction the composition needs, by name). -/
structure Domain (pb : Problem) : Prop where
  /-- `vertices_resources` is a dictionary -/
  vrNodup : (pb.vr.map (·.1)).Nodup
  /-- ... of dictionaries -/
  resNodup : ∀ q ∈ pb.vr, (q.2.map (·.1)).Nodup
  /-- requirements are non-negative -/
  demandNonneg : ∀ q ∈ pb.vr, ∀ rd ∈ q.2, 0 ≤ rd.2
  /-- alignments are positive -/
  alignPos : ∀ r a, PC.align r a ∈ pb.cs → 1 ≤ a
  /-- a SpiNNaker chip has at most 18 cores: the capacity of the core resource is at most 18 on every chip -/
  cores18 : ∀ xy c, Rig.C05.capacity (m5 pb) xy pb.coreRes = some c → c ≤ 18
  /-- a RouteEndpointConstraint names a link (a device hangs on a link, not on a core) -/
  endpointIsLink : ∀ v r, PC.endpoint v r ∈ pb.cs → r < 6
  /-- the vertex of a RouteEndpointConstraint is pinned to a chip by a LocationConstraint, and the link it names is
  a dead link of the machine model there (a device is not a chip) -/
  endpointDead : ∀ v r, PC.endpoint v r ∈ pb.cs →
    ∃ c, PC.loc v c ∈ pb.cs ∧ linkOk (machine3 pb) (chipZ c) r = false
  /-- the nets' key/masks are pairwise non-intersecting (documented precondition of `routing_tree_to_tables`) -/
  keysDisjoint : pb.nets.Pairwise (fun a b => Rig.C04.intersect a.key a.mask b.key b.mask = false)

/-- what the pipeline made of net `n`: same key and mask, the chip of its source, its sinks as the router saw them -/
def NetOf (pb : Problem) (p : Rig.C02.Placement) (A : Rig.C05.Alloc) (n : ANet) (q : PNet) : Prop :=
  q.key = n.key ∧ q.mask = n.mask ∧ chipOf p n.src = some q.src ∧ sinksOf pb p A n.sinks = some q.sinks

/-! ### line protocol -/
open Lean Rig.P

def chip2OfJson (j : Json) : R (Nat × Nat) := asPair j asNat asNat

def pcOfJson (j : Json) : R PC := do
  match ← str j "t" with
  | "loc" => pure (.loc (← nat j "v") (← chip2OfJson (← field j "c")))
  | "same" => pure (.same (← nats j "vs"))
  | "res" => pure (.reserve (← nat j "r") ⟨← int j "start", ← int j "stop"⟩ (← opt j "c" chip2OfJson))
  | "align" => pure (.align (← nat j "r") (← int j "a"))
  | "ep" => pure (.endpoint (← nat j "v") (← nat j "route"))
  | s => .error s!"unknown constraint {s}"

def netOfJson (j : Json) : R ANet := do
  match ← asArr j with
  | [s, ks, k, m] => pure { src := ← asNat s, sinks := ← (← asArr ks).mapM asNat, key := ← Rig.C04.asW k, mask := ← Rig.C04.asW m }
  | _ => .error "net: expected [src, sinks, key, mask]"

def problemOfJson (j : Json) : R Problem := do
  let m2 ← Rig.C02.machineOfJson j
  let dl ← (← arr j "dead_links").mapM fun e => do
    match ← asArr e with
    | [x, y, l] => pure (((← asInt x), (← asInt y)), (← asNat l))
    | _ => .error "expected [x,y,link]"
  pure { vr := ← (← arr j "vr").mapM fun e => asPair e asNat Rig.C05.asResList,
         nres := ← nat j "nres", m2 := m2, deadLinks := dl,
         cs := ← (← arr j "cs").mapM pcOfJson,
         nets := ← (← arr j "nets").mapM netOfJson,
         coreRes := ← nat j "core_res" }

def oracleOfJson (j : Json) : R NetOracle := do
  pure { dests := ← (← arr j "dests").mapM Rig.C03.chipOfJson, tape := ← ints j "tape",
         order := ← Rig.C03.pairsOfJson (← field j "order") }

def placerOfJson (j : Json) : R Placer := do
  match ← str j "t" with
  | "seq" =>
    pure (.seq (← opt j "vo" (fun a => do (← asArr a).mapM Rig.C02.vtxOfJson))
               (← opt j "co" (fun a => do (← asArr a).mapM Rig.C02.chipOfJson)))
  | "rand" => pure (.rand (← (← arr j "picks").mapM Rig.C02.chipOfJson))
  | "sa" =>
    pure (.sa (← (← arr j "locs").mapM Rig.C02.chipOfJson) (← (← arr j "vs").mapM Rig.C02.vtxOfJson)
              (← opt j "steps" (fun a => do (← asArr a).mapM Rig.C02.stepOfJson)))
  | s => .error s!"unknown placer {s}"

/-- targets: {"default": n | null, "chips": [[x, y, n | null], ...]} -/
def targetsOfJson (j : Json) : R (Chip → Option Nat) := do
  let d ← opt j "default" asNat
  let cs ← (← arr j "chips").mapM fun e => do
    match ← asArr e with
    | [x, y, n] => pure (((← asInt x), (← asInt y)), ← asOpt n asNat)
    | _ => .error "expected [x,y,target]"
  pure fun c => match cs.lookup c with
    | some t => t
    | none => d

def jTables (T : Tables) : Json :=
  jList (T.map fun ct => Json.arr #[jInt ct.1.1, jInt ct.1.2, Rig.C04.jTable ct.2])

def jPErr : PErr → Json
  | .place e => Json.mkObj [("err", Json.str "place"), ("what", Json.str (Rig.C02.errName e))]
  | .alloc e => Json.mkObj [("err", Json.str "allocate"), ("what", Rig.C05.errToJson e)]
  | .keyError => Json.mkObj [("err", Json.str "route"), ("what", Json.str "KeyError")]
  | .badOracle => Json.mkObj [("err", Json.str "route"), ("what", Json.str "badOracle")]
  | .route e => Json.mkObj [("err", Json.str "route"), ("what", Json.str e.name)]
  | .unfold => Json.mkObj [("err", Json.str "route"), ("what", Json.str "unfold")]
  | .tables e => Json.mkObj [("err", Json.str "tables"), ("what", Rig.C10.errToJson e)]
  | .minimise chip e => Json.mkObj [("err", Json.str "minimise"), ("chip", jNat chip), ("what", Rig.C04.jErrOf e)]

def handle (op : String) (j : Json) : R Json := do
  match op with
  | "pipeline" =>
    let pb ← problemOfJson j
    let placer ← placerOfJson (← field j "placer")
    let orc ← (← arr j "oracle").mapM oracleOfJson
    let mini ← opt j "minimise" fun mj => do
      pure ((← (← arr mj "methods").mapM Rig.C04.methodOfJson), ← targetsOfJson (← field mj "targets"))
    match modelPipeline pb placer (← nat j "radius") orc mini with
    | .error e => pure (jPErr e)
    | .ok out =>
      pure (jOk (Json.mkObj [
        ("placement", Rig.C02.placementToJson out.placement),
        ("alloc", Rig.C05.allocToJson out.alloc),
        ("chips0", jList ((tables04 out.T10).map fun ct => jInts [ct.1.1, ct.1.2])),
        ("tables0", jTables (tables04 out.T10)),
        ("tables", jTables out.final),
        ("dev", jList ((devLinks pb out.placement).map fun d => Json.arr #[jInt d.1.1, jInt d.1.2, jNat d.2]))]))
  | _ => .error s!"unknown op {op}"

end Rig.C01Pipe
