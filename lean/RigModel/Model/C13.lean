/-
C13 - model of the file-like memory views of rig/machine_control/machine_controller.py
(`SlicedMemoryIO`, `MemoryIO`, `_if_not_closed`, `_if_not_freed`,
`MachineController.sdram_alloc_as_filelike`) and of
rig/machine_control/utils.py `sdram_alloc_for_vertices` (size of the view).

A *world* is one `MemoryIO` (view 0, the owner of the allocation, with its
`_freed` flag and chip coordinates) plus every `SlicedMemoryIO` sliced from it
or from its slices (all of them share `_parent` = view 0), and the memory of
the chip the recording controller serves.  One `Op` is one Python-level call on
one view; `step` is that call: it returns the new world and what the call
produced (return value / exception, whether a `TruncationWarning` was issued,
and the controller call it made, if any).

`read`/`write` are modelled as the code is WITH fixes/c13-memoryio-confinement.diff
(`_bytes_available`); the code before that patch is kept as `readCountOrig`,
`writeCountOrig` (used only by the `decide` witnesses in Props/C13.lean).
`seek(n, 2)` is modelled as the code computes it (`len - n`, pinned by the
repository's `test_seek_from_end`); the bounded-file specification below says
`len + n` (finding `seek-from-end-sign`).
`__getitem__` is modelled WITH fixes/c13-getitem-closed.diff (`@_if_not_closed`: slicing a
closed view or a view of a freed allocation raises OSError); the unguarded code is kept as
`doSliceOrig` for the witness.
-/
import RigModel.Model.Proto

namespace Rig.C13
open Lean

/-! ## Data -/

inductive Err where
  | osError          -- raised by `_if_not_closed` / `_if_not_freed`
  | valueError       -- bad `from_what`, non-contiguous slice, non-slice key
  | attributeError   -- `free()` on a `SlicedMemoryIO` (it has no such method)
  | transferError    -- the controller's read/write raised (SCPError: timeout, fatal return code);
                     -- it propagates unchanged through the view's read/write
  | truncation       -- a `TruncationWarning` turned into an exception by the caller's warnings filter
  | other            -- any other exception (observed only; the model never raises it)
  deriving Repr, DecidableEq

/-- the attributes of one `SlicedMemoryIO` / `MemoryIO` -/
structure View where
  start : Int        -- `_start_address`
  stop : Int         -- `_end_address`
  offset : Int       -- `_offset`
  closed : Bool      -- `closed`
  deriving Repr, DecidableEq

/-- byte memory of the chip (what the controller reads and writes) -/
abbrev Mem := Int → Nat

def readMem (m : Mem) (a : Int) (n : Nat) : List Nat :=
  (List.range n).map (fun (i : Nat) => m (a + (i : Int)))

def writeMem (m : Mem) (a : Int) (d : List Nat) : Mem :=
  fun x => if a ≤ x then
      match d[(x - a).toNat]? with
      | some b => b
      | none => m x
    else m x

/-- a call made on the machine controller -/
inductive Access where
  | read (addr : Int) (n : Nat) (x y p : Nat)            -- `controller.read(addr, n, x, y, p)`
  | write (addr : Int) (data : List Nat) (x y p : Nat)   -- `controller.write(addr, data, x, y, p)`
  | free (addr : Int) (x y : Nat)                        -- `controller.sdram_free(addr, x, y)`
  deriving Repr, DecidableEq

inductive Ret where
  | none
  | int (i : Int)
  | bytes (l : List Nat)
  | view (idx : Nat)       -- a new view was created; its index in the world
  | err (e : Err)
  | noSuchView             -- protocol error of the harness (never a code path)
  deriving Repr, DecidableEq

structure Out where
  ret : Ret
  warn : Bool              -- a `TruncationWarning` was issued
  access : Option Access
  deriving Repr, DecidableEq

structure World where
  x : Nat
  y : Nat
  freed : Bool             -- `MemoryIO._freed` of view 0
  views : List View
  mem : Mem

inductive Op where
  | seek (i : Nat) (n : Int) (whence : Int)
  | read (i : Nat) (n : Int)                       -- `read()` is `read(-1)`
  | write (i : Nat) (data : List Nat)
  | readFail (i : Nat) (n : Int)                   -- `read(n)` while the controller's read raises
  | writeFail (i : Nat) (data : List Nat) (k : Nat)
      -- `write(data)` while the controller's write raises after storing the first `k` bytes it was given
  | slice (i : Nat) (a b : Option Int) (step : Option Int)   -- `view[a:b:step]`
  | index (i : Nat)                                -- `view[k]`, `view[a:b, c:d]`: not a slice
  | tell (i : Nat)
  | address (i : Nat)
  | len (i : Nat)
  | flush (i : Nat)
  | close (i : Nat)
  | free (i : Nat)
  | freeFail (i : Nat)                             -- `free()` while the controller's `sdram_free` raises
  | enter (i : Nat)                                -- `view.__enter__()` (start of a `with view:` block)
  | exitBlock (i : Nat) (raised : Bool)            -- `view.__exit__(...)`: the block ended normally / by an exception
  deriving Repr, DecidableEq

def Op.target : Op → Nat
  | .seek i _ _ | .read i _ | .write i _ | .readFail i _ | .writeFail i _ _ | .slice i _ _ _ | .index i | .tell i
  | .address i | .len i | .flush i | .close i | .free i | .freeFail i | .enter i | .exitBlock i _ => i

/-! ## The code -/

/-- `SlicedMemoryIO.__init__`: "If start_address is greater or equal to end_address
then end_address is ignored and start_address is used instead." -/
def mkView (start stop : Int) : View :=
  { start := start, stop := max start stop, offset := 0, closed := false }

/-- `MemoryIO(controller, x, y, start, end)` -/
def mkRoot (x y : Nat) (start stop : Int) (m : Mem) : World :=
  { x := x, y := y, freed := false, views := [mkView start stop], mem := m }

/-- `sdram_alloc_as_filelike(size, ...)` when `sdram_alloc` returned `base` -/
def allocAsFilelike (x y : Nat) (base size : Int) (m : Mem) : World :=
  mkRoot x y base (base + size) m

/-- `utils.sdram_alloc_for_vertices`: `size = sdram_slice.stop - sdram_slice.start` -/
def allocForVertex (x y : Nat) (base sdramStart sdramStop : Int) (m : Mem) : World :=
  allocAsFilelike x y base (sdramStop - sdramStart) m

/-- the `address` property -/
def View.address (v : View) : Int := v.offset + v.start
/-- `__len__` -/
def View.len (v : View) : Int := v.stop - v.start

/-- `_if_not_closed`: `if self.closed or self._parent._freed: raise OSError` -/
def dead (w : World) (v : View) : Bool := v.closed || w.freed

/-- `_bytes_available` (added by the fix): bytes left before the end of the region,
none when the position is outside the region -/
def View.available (v : View) : Int :=
  if v.offset < 0 then 0 else max 0 (v.stop - v.address)

/-- `read`: (warning issued, number of bytes to transfer) -/
def readCount (v : View) (nBytes : Int) : Bool × Int :=
  let avail := v.available
  let n := if nBytes < 0 then avail else nBytes
  if n > avail then (true, avail) else (false, n)

/-- Python `b[:n]` -/
def pyPrefix (d : List Nat) (n : Int) : List Nat :=
  if 0 ≤ n then d.take n.toNat else d.take (d.length - (-n).toNat)

/-- `write`: (warning issued, the bytes to transfer) -/
def writeData (v : View) (d : List Nat) : Bool × List Nat :=
  let avail := v.available
  if (d.length : Int) > avail then (true, pyPrefix d avail) else (false, d)

/-- the code BEFORE the fix (kept for the witnesses) -/
def readCountOrig (v : View) (nBytes : Int) : Bool × Int :=
  let n := if nBytes < 0 then v.stop - v.address else nBytes
  if v.address + n > v.stop then (true, v.stop - v.address) else (false, n)

def writeDataOrig (v : View) (d : List Nat) : Bool × List Nat :=
  if v.address + (d.length : Int) > v.stop then (true, pyPrefix d (v.stop - v.address)) else (false, d)

def setView (w : World) (i : Nat) (v : View) : World := { w with views := w.views.set i v }

def fail (w : World) (e : Err) : World × Out := (w, ⟨.err e, false, none⟩)
def done (w : World) (r : Ret) : World × Out := (w, ⟨r, false, none⟩)

def doRead (w : World) (i : Nat) (v : View) (nBytes : Int) : World × Out :=
  if dead w v then fail w .osError else
  let (warn, n) := readCount v nBytes
  if n ≤ 0 then (w, ⟨.bytes [], warn, none⟩) else
  (setView w i { v with offset := v.offset + n },
   ⟨.bytes (readMem w.mem v.address n.toNat), warn, some (.read v.address n.toNat w.x w.y 0)⟩)

def doWrite (w : World) (i : Nat) (v : View) (d : List Nat) : World × Out :=
  if dead w v then fail w .osError else
  let (warn, d') := writeData v d
  if d'.length = 0 then (w, ⟨.int 0, warn, none⟩) else
  ({ setView w i { v with offset := v.offset + d'.length } with mem := writeMem w.mem v.address d' },
   ⟨.int d'.length, warn, some (.write v.address d' w.x w.y 0)⟩)

/-- `read` when the controller's read raises: the code performs the transfer first
(`data = self._parent._perform_read(self.address, n_bytes)`) and only then `self._offset += n_bytes`,
so the exception leaves the view untouched.  Without a transfer (dead view, nothing to read) the
fault never happens and the call is an ordinary `read`. -/
def doReadFail (w : World) (i : Nat) (v : View) (nBytes : Int) : World × Out :=
  if dead w v then fail w .osError else
  let (warn, n) := readCount v nBytes
  if n ≤ 0 then (w, ⟨.bytes [], warn, none⟩) else
  (w, ⟨.err .transferError, warn, some (.read v.address n.toNat w.x w.y 0)⟩)

/-- `write` when the controller's write raises after storing the first `k` of the bytes it was
handed: `self._parent._perform_write(self.address, bytes)` raises before `self._offset += len(bytes)`. -/
def doWriteFail (w : World) (i : Nat) (v : View) (d : List Nat) (k : Nat) : World × Out :=
  if dead w v then fail w .osError else
  let (warn, d') := writeData v d
  if d'.length = 0 then (w, ⟨.int 0, warn, none⟩) else
  ({ w with mem := writeMem w.mem v.address (d'.take k) },
   ⟨.err .transferError, warn, some (.write v.address d' w.x w.y 0)⟩)

/-- NOT the code: a `read` that advances the position before the transfer (`self._offset += n`
then `return self._parent._perform_read(...)`); kept only for the witness
`early_offset_update_breaks_failed_read` -/
def doReadFailEarly (w : World) (i : Nat) (v : View) (nBytes : Int) : World × Out :=
  if dead w v then fail w .osError else
  let (warn, n) := readCount v nBytes
  if n ≤ 0 then (w, ⟨.bytes [], warn, none⟩) else
  (setView w i { v with offset := v.offset + n },
   ⟨.err .transferError, warn, some (.read v.address n.toNat w.x w.y 0)⟩)

def doSeek (w : World) (i : Nat) (v : View) (n whence : Int) : World × Out :=
  if dead w v then fail w .osError else
  if whence = 0 then done (setView w i { v with offset := n }) .none
  else if whence = 1 then done (setView w i { v with offset := v.offset + n }) .none
  else if whence = 2 then done (setView w i { v with offset := (v.stop - v.start) - n }) .none
  else fail w .valueError

/-- `__getitem__`: pure address arithmetic -/
def sliceBounds (v : View) (a b : Option Int) : Int × Int :=
  let s := match a with
    | none => v.start
    | some a => if a < 0 then max v.start (v.stop + a) else min v.stop (v.start + a)
  let e := match b with
    | none => v.stop
    | some b => if b < 0 then max s (v.stop + b) else min v.stop (v.start + b)
  (s, e)

/-- `__getitem__` BEFORE fixes/c13-getitem-closed.diff: not guarded by `_if_not_closed`
(kept for the witness `orig_slice_of_closed_view_is_open`) -/
def doSliceOrig (w : World) (v : View) (a b step : Option Int) : World × Out :=
  if step = none ∨ step = some 1 then
    let (s, e) := sliceBounds v a b
    ({ w with views := w.views ++ [mkView s e] }, ⟨.view w.views.length, false, none⟩)
  else fail w .valueError

/-- `__getitem__` with `@_if_not_closed` (fixes/c13-getitem-closed.diff) -/
def doSlice (w : World) (v : View) (a b step : Option Int) : World × Out :=
  if dead w v then fail w .osError else doSliceOrig w v a b step

/-- `close`: `if not self.closed: self.flush(); self.closed = True` -/
def doClose (w : World) (i : Nat) (v : View) : World × Out :=
  if v.closed then done w .none
  else if dead w v then fail w .osError          -- `flush()` raises: the owner was freed
  else done (setView w i { v with closed := true }) .none

/-- `MemoryIO.free` (view 0 only; a `SlicedMemoryIO` has no `free`) -/
def doFree (w : World) (i : Nat) (v : View) : World × Out :=
  if i ≠ 0 then fail w .attributeError
  else if w.freed then fail w .osError
  else ({ w with freed := true }, ⟨.none, false, some (.free v.start w.x w.y)⟩)

/-- `free()` when `sdram_free` raises: the code calls the controller first and sets `_freed`
afterwards, so the allocation stays usable (and can be freed again) -/
def doFreeFail (w : World) (i : Nat) (v : View) : World × Out :=
  if i ≠ 0 then fail w .attributeError
  else if w.freed then fail w .osError
  else (w, ⟨.err .transferError, false, some (.free v.start w.x w.y)⟩)

def stepView (w : World) (v : View) : Op → World × Out
  | .seek i n wh => doSeek w i v n wh
  | .read i n => doRead w i v n
  | .write i d => doWrite w i v d
  | .readFail i n => doReadFail w i v n
  | .writeFail i d k => doWriteFail w i v d k
  | .slice _ a b s => doSlice w v a b s
  | .index _ => if dead w v then fail w .osError else fail w .valueError   -- `__getitem__`, non-slice key
  | .tell _ => if dead w v then fail w .osError else done w (.int v.offset)
  | .address _ => if dead w v then fail w .osError else done w (.int v.address)
  | .len _ => done w (.int v.len)
  | .flush _ => if dead w v then fail w .osError else done w .none
  | .close i => doClose w i v
  | .free i => doFree w i v
  | .freeFail i => doFreeFail w i v
  | .enter i => done w (.view i)          -- `__enter__` returns the view itself (no check)
  | .exitBlock i _ => doClose w i v       -- `__exit__` calls `close()` however the block was left

def step (w : World) (op : Op) : World × Out :=
  match w.views[op.target]? with
  | none => (w, ⟨.noSuchView, false, none⟩)
  | some v => stepView w v op

/-- would this call issue a `TruncationWarning`?  (it is issued before anything is transferred) -/
def strictFails (w : World) (v : View) : Op → Bool
  | .read _ n | .readFail _ n => !dead w v && (readCount v n).1
  | .write _ d | .writeFail _ d _ => !dead w v && (writeData v d).1
  | _ => false

/-- one call while the caller's warnings filter turns `TruncationWarning` into an exception
(`warnings.simplefilter('error', TruncationWarning)`, as the docstrings of read/write suggest) when
`strict`: the warning is raised out of `warnings.warn`, before the transfer and before the position
moves - nothing happens.  `strict = false` is `step`. -/
def stepS (w : World) (op : Op) (strict : Bool) : World × Out :=
  match w.views[op.target]? with
  | none => step w op
  | some v => if strict && strictFails w v op then (w, ⟨.err .truncation, true, none⟩) else step w op

def runS (w : World) : List (Op × Bool) → List Out × World
  | [] => ([], w)
  | (op, s) :: ops =>
    let (w', o) := stepS w op s
    let (os, w'') := runS w' ops
    (o :: os, w'')

/-- a history: the outputs in order and the final world -/
def run (w : World) : List Op → List Out × World
  | [] => ([], w)
  | op :: ops =>
    let (w', o) := step w op
    let (os, w'') := run w' ops
    (o :: os, w'')

/-! ## Specification: a fixed-length file with a position

Written independently of the code above.  The position is any integer (the
views allow seeking anywhere, `tell()` reports it); bytes are transferred only
between positions `0` and `len`. -/

structure File where
  data : List Nat
  pos : Int
  deriving Repr, DecidableEq

def File.len (f : File) : Int := f.data.length

/-- bytes between the position and the end of the file; none from outside the file -/
def File.room (f : File) : Nat :=
  if 0 ≤ f.pos ∧ f.pos ≤ f.len then (f.len - f.pos).toNat else 0

/-- read `n` bytes (`n < 0`: to the end): new file, bytes returned, truncated? -/
def File.read (f : File) (n : Int) : File × List Nat × Bool :=
  let want : Nat := if n < 0 then f.room else n.toNat
  let k := min want f.room
  ({ f with pos := f.pos + (k : Int) }, (f.data.drop f.pos.toNat).take k, decide (k < want))

/-- write `d`: new file (same length), bytes written, truncated? -/
def File.write (f : File) (d : List Nat) : File × Nat × Bool :=
  let k := min d.length f.room
  ({ data := f.data.take f.pos.toNat ++ d.take k ++ f.data.drop (f.pos.toNat + k),
     pos := f.pos + (k : Int) }, k, decide (k < d.length))

/-- a read whose transfer fails: nothing is delivered, nothing moves.
Returns the number of bytes the transfer was attempted for (0: no transfer, the call is an
ordinary read) and whether the request was truncated. -/
def File.readFail (f : File) (n : Int) : Nat × Bool :=
  let want : Nat := if n < 0 then f.room else n.toNat
  let k := min want f.room
  (k, decide (k < want))

/-- a write whose transfer fails after the machine stored the first `j` bytes: the position does
not move; the file holds those bytes.  Returns the new file, the number of bytes the transfer was
attempted for and whether the request was truncated. -/
def File.writeFail (f : File) (d : List Nat) (j : Nat) : File × Nat × Bool :=
  let k := min d.length f.room
  let done := (d.take k).take j
  ({ data := f.data.take f.pos.toNat ++ done ++ f.data.drop (f.pos.toNat + done.length),
     pos := f.pos }, k, decide (k < d.length))

/-- seek as documented ("as in the Python standard": 0 start, 1 current, 2 end;
`seek(-1, 2)` "goes to the last byte in the region") -/
def File.seek (f : File) (n whence : Int) : Option File :=
  if whence = 0 then some { f with pos := n }
  else if whence = 1 then some { f with pos := f.pos + n }
  else if whence = 2 then some { f with pos := f.len + n }
  else none

/-- CPython `slice(a, b).indices(len)` for step 1 (`PySlice_AdjustIndices`) -/
def pyIndices (len : Int) (a b : Option Int) : Int × Int :=
  let lo := match a with
    | none => 0
    | some a => if a < 0 then (if a + len < 0 then 0 else a + len) else (if a ≥ len then len else a)
  let hi := match b with
    | none => len
    | some b => if b < 0 then (if b + len < 0 then 0 else b + len) else (if b ≥ len then len else b)
  (lo, hi)

/-- the sub-range `view[a:b]` names: `[lo, lo + max 0 (hi - lo))` of `range(len)` -/
def sliceRange (len : Int) (a b : Option Int) : Int × Int :=
  let (lo, hi) := pyIndices len a b
  (lo, lo + max 0 (hi - lo))

/-- the file a view presents: the bytes of its range, and its position -/
def absFile (m : Mem) (v : View) : File :=
  { data := readMem m v.start v.len.toNat, pos := v.offset }

/-- **Confinement** of one controller call issued through view `v` of the
allocation on chip `(x, y)`: a non-empty range inside `[v.start, v.stop)` on that
chip (memory is accessed through core 0); the only `sdram_free` is of the
allocation itself. -/
def Confined (x y : Nat) (v : View) : Access → Prop
  | .read a n x' y' p => v.start ≤ a ∧ a + (n : Int) ≤ v.stop ∧ 0 < n ∧ x' = x ∧ y' = y ∧ p = 0
  | .write a d x' y' p => v.start ≤ a ∧ a + (d.length : Int) ≤ v.stop ∧ 0 < d.length ∧ x' = x ∧ y' = y ∧ p = 0
  | .free a x' y' => a = v.start ∧ x' = x ∧ y' = y

instance (x y : Nat) (v : View) (a : Access) : Decidable (Confined x y v a) := by
  cases a <;> unfold Confined <;> exact inferInstance

/-- the file operations (those `specIO` describes) -/
def Op.isIO : Op → Bool
  | .seek .. | .read .. | .write .. | .readFail .. | .writeFail .. | .tell _ | .address _ | .flush _ => true
  | _ => false

/-- operations that must fail on a closed view / freed allocation: the file operations and
slicing (`__len__` and a repeated `close()` are not in the property's list of operations) -/
def Op.mustFail : Op → Bool
  | .slice .. | .index _ => true
  | op => op.isIO

/-- What the bounded-file specification says one call on a live view does:
return value, warning, the view afterwards, the bytes of the view afterwards,
the number of bytes moved to/from memory at the position. -/
structure SpecOut where
  ret : Ret
  warn : Bool
  post : View
  data : List Nat            -- content of the view's range afterwards
  moved : Nat                -- bytes transferred (0: no controller call)
  isWrite : Bool
  wrote : List Nat           -- the bytes written to memory at the position (`[]` unless a write)
  deriving Repr, DecidableEq

def specRead (v : View) (f : File) (n : Int) : SpecOut :=
  let (f', bs, tr) := f.read n
  ⟨.bytes bs, tr, { v with offset := f'.pos }, f.data, bs.length, false, []⟩

def specWrite (v : View) (f : File) (d : List Nat) : SpecOut :=
  let (f', k, tr) := f.write d
  ⟨.int k, tr, { v with offset := f'.pos }, f'.data, k, true, d.take k⟩

/-- specification of the I/O operations on a live (open, not freed) view `v`
whose range currently holds `f.data` (`f = absFile mem v`).  A transfer that fails raises the
controller's error, moves nothing and delivers nothing (the truncation warning, issued before the
transfer, stays); when no transfer is needed the fault never happens. -/
def specIO (v : View) (f : File) : Op → Option SpecOut
  | .read _ n => some (specRead v f n)
  | .write _ d => some (specWrite v f d)
  | .readFail _ n =>
    let (k, tr) := f.readFail n
    if k = 0 then some (specRead v f n)
    else some ⟨.err .transferError, tr, v, f.data, k, false, []⟩
  | .writeFail _ d j =>
    let (f', k, tr) := f.writeFail d j
    if k = 0 then some (specWrite v f d)
    else some ⟨.err .transferError, tr, v, f'.data, k, true, d.take k⟩
  | .seek _ n wh =>
    match f.seek n wh with
    | some f' => some ⟨.none, false, { v with offset := f'.pos }, f.data, 0, false, []⟩
    | none => some ⟨.err .valueError, false, v, f.data, 0, false, []⟩
  | .tell _ => some ⟨.int f.pos, false, v, f.data, 0, false, []⟩
  | .address _ => some ⟨.int (v.start + f.pos), false, v, f.data, 0, false, []⟩
  | .flush _ => some ⟨.none, false, v, f.data, 0, false, []⟩
  | _ => none

/-- the specification of a call made while `TruncationWarning` is an error: a call that would be
truncated raises instead - nothing is transferred, nothing moves; any other call is unaffected -/
def strictSpec (v : View) (f : File) (s : SpecOut) : SpecOut :=
  if s.warn then { s with ret := .err .truncation, post := v, data := f.data, moved := 0, wrote := [] } else s

/-- specification of slicing: the new view covers exactly the named sub-range -/
def specSlice (v : View) (a b : Option Int) : View :=
  let (lo, hi) := sliceRange v.len a b
  { start := v.start + lo, stop := v.start + hi, offset := 0, closed := false }

/-! ## Predicates the theorems are stated with -/

/-- a view lies inside `[lo, hi]` and is well-formed -/
def Within (lo hi : Int) (v : View) : Prop := lo ≤ v.start ∧ v.start ≤ v.stop ∧ v.stop ≤ hi

/-- world invariant: view 0 (the `MemoryIO`) spans exactly `[lo, hi)`, every view lies inside it -/
def WF (lo hi : Int) (w : World) : Prop :=
  (∃ r, w.views[0]? = some r ∧ r.start = lo ∧ r.stop = hi) ∧ ∀ v ∈ w.views, Within lo hi v

/-- view `i` exists and has been closed -/
def ClosedAt (w : World) (i : Nat) : Prop := ∃ v, w.views[i]? = some v ∧ v.closed = true

/-- the controller call the specification allows: none when nothing is transferred, else one
read / write of exactly the transferred bytes at the position -/
def specAccess (w : World) (v : View) (s : SpecOut) : Option Access :=
  if s.moved = 0 then none
  else if s.isWrite then some (.write (v.start + v.offset) s.wrote w.x w.y 0)
  else some (.read (v.start + v.offset) s.moved w.x w.y 0)

/-- what it means for one call on view `v` (index `i`) to refine the file specification `s` -/
def Refines (w : World) (i : Nat) (v : View) (s : SpecOut) (r : World × Out) : Prop :=
  r.2 = ⟨s.ret, s.warn, specAccess w v s⟩ ∧
  r.1.views = w.views.set i s.post ∧
  (absFile r.1.mem s.post).data = s.data ∧
  (∀ a, a < v.start ∨ v.stop ≤ a → r.1.mem a = w.mem a) ∧
  r.1.freed = w.freed ∧ r.1.x = w.x ∧ r.1.y = w.y

/-- the same history run on the file: the (return value, warning) of every call -/
def specRun (v : View) (data : List Nat) : List Op → List (Ret × Bool)
  | [] => []
  | op :: ops =>
    match specIO v ⟨data, v.offset⟩ op with
    | some s => (s.ret, s.warn) :: specRun s.post s.data ops
    | none => []

/-! ## The oracle: the specification evaluated on one observed call of the implementation -/

structure Obs where
  x : Nat
  y : Nat
  isRoot : Bool              -- the call was made on the `MemoryIO` itself
  pre : View
  preFreed : Bool
  op : Op
  out : Out                  -- `ret = .view _` for a slice (index irrelevant)
  post : View
  postFreed : Bool
  newView : Option View
  base : Int                 -- observed memory window `[base, base + before.length)`
  before : List Nat
  after : List Nat
  strict : Bool := false     -- the call ran with `TruncationWarning` turned into an exception

def expectWindow (o : Obs) (data : List Nat) : List Nat :=
  o.before.take (o.pre.start - o.base).toNat ++ data ++ o.before.drop (o.pre.stop - o.base).toNat

def viewInWindow (o : Obs) : Bool :=
  decide (o.base ≤ o.pre.start ∧ o.pre.start ≤ o.pre.stop ∧ o.pre.stop ≤ o.base + (o.before.length : Int))

def winMem (base : Int) (l : List Nat) : Mem :=
  fun a => if base ≤ a then l.getD (a - base).toNat 0 else 0

/-- the file a view presents when its range lies inside the observed window: the same bytes as
`absFile (winMem base before) v`, cut out of the list directly (linear, for views of 65,537 bytes and more) -/
def absFileWin (base : Int) (before : List Nat) (v : View) : File :=
  { data := (before.drop (v.start - base).toNat).take v.len.toNat, pos := v.offset }

/-- names of the clauses of the property the observed call violates (`[]` = none) -/
def checkObs (o : Obs) : List String :=
  let v := o.pre
  let isDead := v.closed || o.preFreed
  -- 1. confinement of the controller call, whatever else happened
  let c1 := match o.out.access with
    | none => []
    | some a => if decide (Confined o.x o.y v a) && (match a with | .free .. => o.isRoot | _ => true)
                then [] else ["confinement"]
  -- memory outside the view's range is never changed
  let c2 := if viewInWindow o then
      (if o.after.take (v.start - o.base).toNat = o.before.take (v.start - o.base).toNat ∧
          o.after.drop (v.stop - o.base).toNat = o.before.drop (v.stop - o.base).toNat ∧
          o.after.length = o.before.length then [] else ["confinement-memory"])
    else []
  let c3 :=
    if o.op.isIO then
      if isDead then
        -- 2. after close / free every operation fails (and does nothing)
        (if o.out = ⟨.err .osError, false, none⟩ ∧ o.post = v ∧ o.postFreed = o.preFreed ∧ o.after = o.before
         then [] else ["dead"])
      else
        -- 3. bounded file
        let f := if viewInWindow o then absFileWin o.base o.before v else absFile (winMem o.base o.before) v
        match specIO v f o.op with
        | none => []
        | some s0 =>
          -- with warnings as errors a call that would be truncated raises instead and does nothing
          let s := if o.strict then strictSpec v f s0 else s0
          (if o.out.ret = s.ret then [] else ["file-result"]) ++
          (if o.out.warn = s.warn then [] else ["file-warning"]) ++
          (if o.post = s.post then [] else
            (match o.op with
             | .seek _ n wh => if wh = 2 ∧ n ≠ 0 ∧ o.post = { v with offset := v.len - n } then ["seek-from-end-sign"] else ["file-position"]
             | _ => ["file-position"])) ++
          (if viewInWindow o then (if o.after = expectWindow o s.data then [] else ["file-content"]) else []) ++
          (match o.out.access with
           | none => if s.moved = 0 then [] else ["file-transfer"]
           | some (.read a n ..) => if !s.isWrite ∧ n = s.moved ∧ a = v.start + v.offset then [] else ["file-transfer"]
           | some (.write a d ..) => if s.isWrite ∧ d = s.wrote ∧ a = v.start + v.offset then [] else ["file-transfer"]
           | some (.free ..) => ["file-transfer"]) ++
          (if o.postFreed = o.preFreed then [] else ["file-result"])
    else
      match o.op with
      | .slice _ a b st =>
        if isDead then
          -- 2'. slicing a closed view / freed allocation fails (any exception) and creates nothing
          (match o.out.ret with
           | .err _ => if o.newView = none ∧ o.post = v ∧ o.after = o.before ∧ o.out.access = none
                       then [] else ["dead-sliced"]
           | _ => ["dead-sliced"])
        else if st = none ∨ st = some 1 then
          -- 4. a slice covers exactly the clipped sub-range it names
          (match o.newView with
           | some nv => if nv = specSlice v a b then [] else ["slice-range"]
           | none => ["slice-range"]) ++
          (if o.post = v ∧ o.after = o.before ∧ o.out.access = none then [] else ["slice-effect"])
        else []
      | .len _ => if o.out.ret = .int v.len ∧ o.post = v ∧ o.after = o.before then [] else ["file-result"]
      | .close _ | .exitBlock _ _ =>
        -- 5. `close()` and leaving a with-block - normally OR through an exception - close the view
        -- (unless the allocation was freed: then `close()` raises and nothing changes)
        if o.preFreed && !v.closed then []
        else if o.post = { v with closed := true } ∧ o.postFreed = o.preFreed ∧ o.after = o.before ∧
                o.out = ⟨.none, false, none⟩ then [] else ["not-closed"]
      | .freeFail _ =>
        -- a `free()` whose `sdram_free` failed frees nothing: state after = state before
        if o.out.ret = .err .transferError then
          (if o.post = v ∧ o.postFreed = o.preFreed ∧ o.after = o.before then [] else ["failed-free"])
        else []
      | _ => []
  c1 ++ c2 ++ c3

/-! ## Line protocol -/

open Rig.P in
def viewOfJson (j : Json) : R View := do
  match ← asArr j with
  | [s, e, o, c] => pure { start := ← asInt s, stop := ← asInt e, offset := ← asInt o, closed := ← asBool c }
  | _ => .error "view: expected [start, stop, offset, closed]"

open Rig.P in
def jView (v : View) : Json := jList [jInt v.start, jInt v.stop, jInt v.offset, Json.bool v.closed]

open Rig.P in
def opOfJson (j : Json) : R Op := do
  let k ← str j "k"
  let i ← nat j "v"
  match k with
  | "seek" => pure (.seek i (← int j "n") (← int j "w"))
  | "read" =>
    match ← opt j "fault" asInt with
    | none => pure (.read i (← int j "n"))
    | some _ => pure (.readFail i (← int j "n"))
  | "write" =>
    match ← opt j "fault" asNat with
    | none => pure (.write i (← nats j "d"))
    | some k => pure (.writeFail i (← nats j "d") k)
  | "slice" => pure (.slice i (← opt j "a" asInt) (← opt j "b" asInt) (← opt j "s" asInt))
  | "index" => pure (.index i)
  | "tell" => pure (.tell i)
  | "address" => pure (.address i)
  | "len" => pure (.len i)
  | "flush" => pure (.flush i)
  | "close" =>
    -- `close()`; with "with": leaving a with-block normally (true) or by an exception ("exc")
    match j.getObjVal? "with" with
    | .ok (.bool true) => pure (.exitBlock i false)
    | .ok (.str _) => pure (.exitBlock i true)
    | _ => pure (.close i)
  | "enter" => pure (.enter i)
  | "exit" => pure (.exitBlock i (← bool j "raised"))
  | "free" =>
    match ← opt j "fault" asInt with
    | none => pure (.free i)
    | some _ => pure (.freeFail i)
  | _ => .error s!"unknown op kind {k}"

def errName : Err → String
  | .osError => "OSError"
  | .valueError => "ValueError"
  | .attributeError => "AttributeError"
  | .transferError => "TransferError"
  | .truncation => "TruncationWarning"
  | .other => "Other"

open Rig.P in
def jRet : Ret → Json
  | .none => Json.null
  | .int i => jInt i
  | .bytes l => Json.mkObj [("b", jNats l)]
  | .view i => Json.mkObj [("view", jNat i)]
  | .err e => Json.mkObj [("err", Json.str (errName e))]
  | .noSuchView => Json.mkObj [("err", Json.str "noSuchView")]

open Rig.P in
def jAccess : Access → Json
  | .read a n x y p => jList [Json.str "r", jInt a, jNat n, jNat x, jNat y, jNat p]
  | .write a d x y p => jList [Json.str "w", jInt a, jNats d, jNat x, jNat y, jNat p]
  | .free a x y => jList [Json.str "f", jInt a, jNat x, jNat y]

open Rig.P in
def jOut (o : Out) : Json :=
  Json.mkObj [("ret", jRet o.ret), ("warn", Json.bool o.warn), ("acc", jOpt jAccess o.access)]

open Rig.P in
def retOfJson (j : Json) : R Ret :=
  match j with
  | .null => pure .none
  | .num _ => do pure (.int (← asInt j))
  | _ => do
    match j.getObjVal? "b" with
    | .ok b => pure (.bytes (← (← asArr b).mapM asNat))
    | .error _ =>
      match j.getObjVal? "view" with
      | .ok _ => pure (.view 0)
      | .error _ =>
        match ← str j "err" with
        | "OSError" => pure (.err .osError)
        | "ValueError" => pure (.err .valueError)
        | "AttributeError" => pure (.err .attributeError)
        | "TransferError" => pure (.err .transferError)
        | "TruncationWarning" => pure (.err .truncation)
        | _ => pure (.err .other)

open Rig.P in
def accessOfJson (j : Json) : R Access := do
  match ← asArr j with
  | [k, a, n, x, y, p] =>
    match ← asStr k with
    | "r" => pure (.read (← asInt a) (← asNat n) (← asNat x) (← asNat y) (← asNat p))
    | "w" => pure (.write (← asInt a) (← (← asArr n).mapM asNat) (← asNat x) (← asNat y) (← asNat p))
    | _ => .error "access kind"
  | [k, a, x, y] =>
    match ← asStr k with
    | "f" => pure (.free (← asInt a) (← asNat x) (← asNat y))
    | _ => .error "access kind"
  | _ => .error "access: bad shape"

open Rig.P in
def outOfJson (j : Json) : R Out := do
  pure { ret := ← retOfJson (← field j "ret"), warn := ← bool j "warn", access := ← opt j "acc" accessOfJson }

open Rig.P in
def handle (op : String) (j : Json) : R Json := do
  match op with
  | "trace" =>
    -- the model run on a whole history
    let x ← nat j "x"
    let y ← nat j "y"
    let base ← int j "base"
    let win ← nats j "win"
    let m := winMem base win
    let w0 ← (do
      match ← str j "mode" with
      | "direct" => pure (mkRoot x y (← int j "start") (← int j "stop") m)
      | "alloc" => pure (allocAsFilelike x y (← int j "start") (← int j "size") m)
      | "vertex" => pure (allocForVertex x y (← int j "start") (← int j "s0") (← int j "s1") m)
      | md => .error s!"unknown mode {md}" : R World)
    let ops ← (← arr j "ops").mapM (fun o => do
      let strict ← (do match ← opt o "werr" asBool with | some b => pure b | none => pure false : R Bool)
      pure (← opOfJson o, strict) : Json → R (Op × Bool))
    let (outs, w) := runS w0 ops
    pure (Json.mkObj [("outs", jList (outs.map jOut)), ("views", jList (w.views.map jView)),
                      ("freed", Json.bool w.freed), ("win", jNats (readMem w.mem base win.length))])
  | "check" =>
    -- the specification evaluated on the observed steps of the implementation
    let x ← nat j "x"
    let y ← nat j "y"
    let base ← int j "base"
    let win0 ← nats j "win"
    let steps ← arr j "steps"
    let mut before := win0
    let mut res : List Json := []
    -- views the specification says are closed (a `close()` / with-block exit happened on them while the
    -- allocation was not freed): every later call on them is judged as a call on a closed view, whatever
    -- the implementation's own flag says
    let mut closedBySpec : List Nat := []
    for s in steps do
      -- `wb`: the window just before this call when another owner's call changed it in between
      match ← opt s "wb" (fun a => do (← asArr a).mapM asNat) with
      | some b => before := b
      | none => pure ()
      -- the window after the call; absent = unchanged (long views: most calls do not write)
      let after ← (do match ← opt s "win" (fun a => do (← asArr a).mapM asNat) with
                      | some a => pure a | none => pure before : R (List Nat))
      let op ← opOfJson (← field s "op")
      let pre0 ← viewOfJson (← field s "pre")
      let post0 ← viewOfJson (← field s "post")
      let pre := if closedBySpec.contains op.target then { pre0 with closed := true } else pre0
      let strict ← (do match ← opt (← field s "op") "werr" asBool with | some b => pure b | none => pure false : R Bool)
      let o : Obs := {
        x := x, y := y, isRoot := ← bool s "root", pre := pre,
        preFreed := ← bool s "freed", op := op, out := ← outOfJson (← field s "out"),
        post := (if closedBySpec.contains op.target then { post0 with closed := true } else post0),
        postFreed := ← bool s "pfreed",
        newView := ← opt s "nv" viewOfJson, base := base, before := before, after := after, strict := strict }
      res := res ++ [jList ((checkObs o).map Json.str)]
      match op with
      | .close i | .exitBlock i _ => if !o.preFreed then closedBySpec := i :: closedBySpec
      | _ => pure ()
      before := after
    -- a view obtained from an allocation of `size` bytes at `abase` must span exactly that allocation
    let rootFails ← (do
      match ← opt j "alloc" (fun a => asPair a asInt asInt) with
      | none => pure []
      | some (abase, size) =>
        let r ← viewOfJson (← field j "root")
        let spec := (allocAsFilelike x y abase size (fun _ => 0)).views
        -- ... and the allocation must have been made on the chip the view accesses
        let chipOk ← (do
          match ← opt j "alloc_xy" (fun a => asPair a asNat asNat) with
          | none => pure true
          | some (ax, ay) => pure (ax == x && ay == y) : R Bool)
        pure (if spec = [r] ∧ chipOk then [] else ["confinement"]) : R (List String))
    pure (Json.mkObj [("fails", jList res), ("root", jList (rootFails.map Json.str))])
  | "orig" =>
    -- the counts the code computed before the fix (for reporting only)
    let v ← viewOfJson (← field j "view")
    let (w1, n1) := readCountOrig v (← int j "n")
    pure (Json.mkObj [("warn", Json.bool w1), ("n", jInt n1)])
  | _ => .error s!"c13: unknown op {op}"

end Rig.C13
