/-
C02 - model of the placers of rig/place_and_route/place:
  utils.py        subtract_resources / add_resources / overallocated /
                  resources_after_reservation / apply_reserve_resource_constraint /
                  apply_same_chip_constraints / finalise_same_chip_constraints
  sequential.py   place (given the vertex order and chip order handed to it; these are
                  what hilbert.py, rcm.py and breadth_first.py compute and pass on)
  rand.py         place (given the chips drawn by the random number generator)
  sa/algorithm.py _initial_placement and the constraint handling of place (given the two
                  shuffles), sa/python_kernel.py _get_candidate_swap / _swap / _step (given
                  the vertex, the destination and the accept decision drawn)
  machine.py      Machine.__contains__ / __getitem__ / __setitem__ / __iter__ / copy

Conventions.  A resource dictionary `{resource: value}` is a `List Int` indexed by the
position of the resource in `machine.chip_resources`; a vertex that does not mention a
resource has 0 there (this is what `res_b.get(resource, 0)` computes).  Python `dict`s whose
iteration order matters are association lists in insertion order.  Every exception the code
can raise is a constructor of `Err`; `InsufficientResourceError` and
`InvalidConstraintError` are the two documented ones.  Choices the code leaves to a `set`
iteration order or to the RNG are explicit inputs and the theorems quantify over all of them.
Nets do not influence feasibility: they only determine the orders computed by the wrappers
and the cost function of the annealer, both of which are inputs here.
-/
import RigModel.Model.Proto

namespace Rig.C02

abbrev Chip := Nat × Nat
abbrev Res := List Int

/-- vertices: `o n` is a vertex of the caller, `m k` the `MergedVertex` object created for
the k-th substitution of `apply_same_chip_constraints` -/
inductive Vtx where
  | o (n : Nat)
  | m (k : Nat)
  deriving DecidableEq, Repr

inductive Err where
  | insufficient        -- InsufficientResourceError   (documented)
  | invalidConstraint   -- InvalidConstraintError      (documented)
  | keyError            -- KeyError   (unknown vertex / resource)
  | indexError          -- IndexError (Machine.__getitem__/__setitem__ on a chip not in the machine)
  | valueError          -- ValueError (list.index / list.remove in the vertex_order rewrite)
  | typeError           -- TypeError  (never produced by the model; harness enum only)
  | badOracle           -- the supplied oracle is not a possible RNG outcome (model only)
  | fuel                -- the chip scan of the sequential placer did not stop (proved impossible)
  deriving DecidableEq, Repr

abbrev M := Except Err

/-! ### association lists (Python dicts in insertion order) -/

def aget {α β} [DecidableEq α] : List (α × β) → α → Option β
  | [], _ => none
  | (k, v) :: t, a => if k = a then some v else aget t a

/-- `d[a] = b` : keeps the position of an existing key, appends a new one -/
def aset {α β} [DecidableEq α] : List (α × β) → α → β → List (α × β)
  | [], a, b => [(a, b)]
  | (k, v) :: t, a, b => if k = a then (a, b) :: t else (k, v) :: aset t a b

/-- `del d[a]` (no error when absent) -/
def adel {α β} [DecidableEq α] : List (α × β) → α → List (α × β)
  | [], _ => []
  | (k, v) :: t, a => if k = a then t else (k, v) :: adel t a

def keys {α β} (l : List (α × β)) : List α := l.map Prod.fst

/-! ### utils.py resource arithmetic -/

/-- `subtract_resources(res_a, res_b)`: keys of `res_a`; a key missing in `res_b` counts 0 -/
def sub : Res → Res → Res
  | [], _ => []
  | a :: as, [] => a :: as
  | a :: as, b :: bs => (a - b) :: sub as bs

/-- `add_resources(res_a, res_b)` -/
def add : Res → Res → Res
  | [], _ => []
  | a :: as, [] => a :: as
  | a :: as, b :: bs => (a + b) :: add as bs

/-- accumulation of `total_resources` in `apply_same_chip_constraints` (keys of both) -/
def accum : Res → Res → Res
  | [], bs => bs
  | as, [] => as
  | a :: as, b :: bs => (a + b) :: accum as bs

/-- `overallocated(res)` -/
def over (r : Res) : Bool := r.any (· < 0)

/-- `res[resource] -= amount` on a copy; `none` = KeyError -/
def decr : Res → Nat → Int → Option Res
  | [], _, _ => none
  | a :: as, 0, x => some ((a - x) :: as)
  | a :: as, n + 1, x => (decr as n x).map (a :: ·)

/-! ### machine.py -/

structure Machine where
  w : Nat
  h : Nat
  res : Res                     -- chip_resources
  exc : List (Chip × Res)       -- chip_resource_exceptions, insertion order
  dead : List Chip              -- dead_chips
  deriving Repr

/-- `(x, y) in machine` -/
def Machine.ok (m : Machine) (c : Chip) : Bool :=
  decide (c.1 < m.w) && decide (c.2 < m.h) && !(m.dead.contains c)

/-- `machine[xy]`; `none` = IndexError -/
def Machine.get (m : Machine) (c : Chip) : Option Res :=
  if m.ok c then some ((aget m.exc c).getD m.res) else none

/-- `machine[xy] = r`; `none` = IndexError -/
def Machine.set (m : Machine) (c : Chip) (r : Res) : Option Machine :=
  if m.ok c then some { m with exc := aset m.exc c r } else none

/-- `iter(machine)`: raster scan, x outermost -/
def Machine.chips (m : Machine) : List Chip :=
  (List.range m.w).flatMap fun x =>
    (List.range m.h).filterMap fun y => if m.ok (x, y) then some (x, y) else none

/-! ### constraints -/

inductive Constraint where
  | loc (v : Vtx) (c : Chip)                          -- LocationConstraint
  | same (vs : List Vtx)                              -- SameChipConstraint
  | reserve (r : Nat) (amt : Int) (at_ : Option Chip)  -- ReserveResourceConstraint (stop - start)
  | endpoint (v : Vtx)                                -- RouteEndpointConstraint
  | other                                             -- anything else (ignored by placers)
  deriving DecidableEq, Repr

abbrev VR := List (Vtx × Res)       -- vertices_resources (insertion order)
abbrev Placement := List (Vtx × Chip)

/-! ### apply_same_chip_constraints / finalise_same_chip_constraints -/

/-- pop every vertex of the (duplicate-free) list from `vr`, summing the resources -/
def popAll : VR → List Vtx → Res → M (VR × Res)
  | vr, [], tot => .ok (vr, tot)
  | vr, v :: vs, tot =>
    match aget vr v with
    | none => .error .keyError
    | some r => popAll (adel vr v) vs (accum tot r)

/-- `set(vertices)`: the order is irrelevant (only a sum and deletions depend on it) -/
def dedup : List Vtx → List Vtx
  | [] => []
  | v :: vs => if v ∈ dedup vs then dedup vs else v :: dedup vs

def substV (mv : Vtx) (vs : List Vtx) (w : Vtx) : Vtx := if w ∈ vs then mv else w

/-- rewrite of one constraint when the vertices `vs` are replaced by `mv` -/
def rewrite (mv : Vtx) (vs : List Vtx) : Constraint → Constraint
  | .loc v c => .loc (substV mv vs v) c
  | .same ws => .same (ws.map (substV mv vs))
  | .endpoint v => .endpoint (substV mv vs v)
  | c => c

/-- the `for same_chip_constraint in constraints` loop; `i` is the index reached, the first
argument counts the constraints still to visit.  The list is rewritten in place while it is
iterated, so later constraints are seen in their rewritten form. -/
def applySameLoop : Nat → Nat → VR → List Constraint → List (List Vtx) →
    M (VR × List Constraint × List (List Vtx))
  | 0, _, vr, cs, subs => .ok (vr, cs, subs)
  | n + 1, i, vr, cs, subs =>
    match cs[i]? with
    | some (.same vs) =>
      if vs.length ≤ 1 then applySameLoop n (i + 1) vr cs subs
      else
        let mv := Vtx.m subs.length
        match popAll vr (dedup vs) [] with
        | .error e => .error e
        | .ok (vr1, tot) =>
          applySameLoop n (i + 1) (vr1 ++ [(mv, tot)]) (cs.map (rewrite mv vs)) (subs ++ [vs])
    | _ => applySameLoop n (i + 1) vr cs subs

def applySame (vr : VR) (cs : List Constraint) : M (VR × List Constraint × List (List Vtx)) :=
  applySameLoop cs.length 0 vr cs []

/-- one step of `finalise_same_chip_constraints`: `placement = placements.pop(merged)` then
`placements[v] = placement` for every member -/
def expandOne (p : Placement) (k : Nat) (vs : List Vtx) : M Placement :=
  match aget p (.m k) with
  | none => .error .keyError
  | some c => .ok (vs.foldl (fun q v => aset q v c) (adel p (.m k)))

/-- `for merged_vertex in reversed(substitutions)`; `base` = index of the first element -/
def finaliseFrom : Nat → List (List Vtx) → Placement → M Placement
  | _, [], p => .ok p
  | base, vs :: rest, p => do
    let q ← finaliseFrom (base + 1) rest p
    expandOne q base vs

def finalise (subs : List (List Vtx)) (p : Placement) : M Placement := finaliseFrom 0 subs p

/-! ### constraint handling shared by all placers (the `for constraint in constraints` loop) -/

/-- the global branch of `apply_reserve_resource_constraint`, loop over the exceptions:
`done` are the entries already updated -/
def reserveExc (m : Machine) (r : Nat) (amt : Int) :
    List (Chip × Res) → List (Chip × Res) → M (List (Chip × Res))
  | done, [] => .ok done
  | done, (c, res) :: rest =>
    match decr res r amt with
    | none => .error .keyError
    | some res' =>
      -- `if location in machine and overallocated(machine[location])`: the entry of a dead chip is
      -- reduced like every other one but never decides over-allocation
      if m.ok c && over res' then .error .insufficient
      else reserveExc m r amt (done ++ [(c, res')]) rest

def applyReserve (m : Machine) (r : Nat) (amt : Int) : Option Chip → M Machine
  | none =>
    match decr m.res r amt with
    | none => .error .keyError
    | some res' =>
      if over res' then .error .insufficient
      else do
        let exc' ← reserveExc m r amt [] m.exc
        pure { m with res := res', exc := exc' }
  | some c =>
    match m.get c with
    | none => .error .indexError
    | some cur =>
      match decr cur r amt with
      | none => .error .keyError
      | some res' =>
        match m.set c res' with
        | none => .error .indexError
        | some m' => if over res' then .error .insufficient else .ok m'

/-- the constraint loop of sequential.place / rand.place / sa.place -/
def prepareLoop (vr : VR) : List Constraint → Machine → Placement → M (Machine × Placement)
  | [], m, p => .ok (m, p)
  | .loc v c :: cs, m, p =>
    if !m.ok c then .error .invalidConstraint
    else
      match aget vr v with
      | none => .error .keyError
      | some d =>
        match m.get c with
        | none => .error .indexError
        | some cur =>
          let r := sub cur d
          match m.set c r with
          | none => .error .indexError
          | some m' =>
            if over r then .error .insufficient
            else prepareLoop vr cs m' (aset p v c)
  | .reserve r amt at_ :: cs, m, p => do
    let m' ← applyReserve m r amt at_
    prepareLoop vr cs m' p
  | _ :: cs, m, p => prepareLoop vr cs m p

/-! ### sequential.py -/

/-- `vertex_order[vertex_order.index(a)] = b`; `none` = ValueError -/
def replaceFirst : List Vtx → Vtx → Vtx → Option (List Vtx)
  | [], _, _ => none
  | x :: t, a, b => if x = a then some (b :: t) else (replaceFirst t a b).map (x :: ·)

/-- the removal loop over `merged_vertex.vertices[1:]` -/
def removeRest : List Vtx → List Vtx → List Vtx → M (List Vtx)
  | vo, [], _ => .ok vo
  | vo, v :: vs, removed =>
    if v ∈ removed then removeRest vo vs removed
    else if v ∈ vo then removeRest (vo.erase v) vs (v :: removed)
    else .error .valueError

/-- rewrite of `vertex_order` for the substitutions, in order -/
def substOrder : Nat → List (List Vtx) → List Vtx → M (List Vtx)
  | _, [], vo => .ok vo
  | k, vs :: rest, vo =>
    match vs with
    | [] => .error .indexError                      -- unreachable: merged groups have ≥ 2 entries
    | v0 :: tl =>
      match replaceFirst vo v0 (.m k) with
      | none => .error .valueError
      | some vo1 => do
        let vo2 ← removeRest vo1 tl [v0]
        substOrder (k + 1) rest vo2

/-- the chip the cyclic iterator yields at position `pos` -/
def chipAt (chips : List Chip) (pos : Nat) : Chip := chips.getD (pos % chips.length) (0, 0)

inductive Scan where
  | placed (pos : Nat) (c : Chip) (r : Res)
  | failed (e : Err)

/-- the `while True` loop for one vertex: `pos` is the position of `cur_chip` in the cycle,
`last` is `last_successful_chip`; the first argument bounds the number of chips tried -/
def scan (chips : List Chip) (m : Machine) (d : Res) (last : Chip) : Nat → Nat → Scan
  | 0, _ => .failed .fuel
  | fuel + 1, pos =>
    let c := chipAt chips pos
    match m.get c with
    | none => .failed .indexError
    | some cur =>
      let r := sub cur d
      if !over r then .placed pos c r
      else if chipAt chips (pos + 1) = last then .failed .insufficient
      else scan chips m d last fuel (pos + 1)

/-- `for vertex in movable_vertices` (the generator's `v not in placements` test is evaluated
lazily, i.e. against the placements made so far) -/
def seqLoop (vr : VR) (chips : List Chip) : List Vtx → Nat → Machine → Placement → M Placement
  | [], _, _, p => .ok p
  | v :: vs, pos, m, p =>
    if (aget p v).isSome then seqLoop vr chips vs pos m p
    else
      match aget vr v with
      | none => .error .keyError
      | some d =>
        match scan chips m d (chipAt chips pos) chips.length pos with
        | .failed e => .error e
        | .placed pos' c r =>
          match m.set c r with
          | none => .error .indexError
          | some m' => seqLoop vr chips vs pos' m' (aset p v c)

/-- `sequential.place(vertices_resources, nets, machine, constraints, vertex_order, chip_order)` -/
def seqPlace (vr : VR) (cs : List Constraint) (m : Machine)
    (vertexOrder : Option (List Vtx)) (chipOrder : Option (List Chip)) : M Placement :=
  if vr.length = 0 then .ok []
  else do
    let (vr', cs', subs) ← applySame vr cs
    let (m', fixed) ← prepareLoop vr' cs' m []
    let order ← match vertexOrder with
      | none => pure (keys vr')
      | some vo => substOrder 0 subs vo
    let chips := (chipOrder.getD m'.chips).filter m'.ok
    if chips.isEmpty then .error .insufficient
    else do
      let p ← seqLoop vr' chips order 0 m' fixed
      finalise subs p

/-! ### hilbert.py -/

/-- `HilbertState` -/
structure HS where
  x : Int
  y : Int
  dx : Int
  dy : Int
  deriving Repr

/-- the recursive part of the generator `hilbert(level, angle, s)` (`s` given): the points yielded,
in order, and the state left behind -/
def hilbertGen : Nat → Int → HS → List (Int × Int) × HS
  | 0, _, s => ([], s)
  | n + 1, a, s =>
    let s := { s with dx := s.dy * -a, dy := s.dx * a }        -- turn left
    let (l1, s) := hilbertGen n (-a) s                         -- recurse negative
    let s := { s with x := s.x + s.dx, y := s.y + s.dy }       -- move forward
    let p1 := (s.x, s.y)
    let s := { s with dx := s.dy * a, dy := s.dx * -a }        -- turn right
    let (l2, s) := hilbertGen n a s                            -- recurse positive
    let s := { s with x := s.x + s.dx, y := s.y + s.dy }       -- move forward
    let p2 := (s.x, s.y)
    let (l3, s) := hilbertGen n a s                            -- recurse positive
    let s := { s with dx := s.dy * a, dy := s.dx * -a }        -- turn right
    let s := { s with x := s.x + s.dx, y := s.y + s.dy }       -- move forward
    let p3 := (s.x, s.y)
    let (l4, s) := hilbertGen n (-a) s                         -- recurse negative
    let s := { s with dx := s.dy * -a, dy := s.dx * a }        -- turn left
    (l1 ++ p1 :: l2 ++ p2 :: l3 ++ p3 :: l4, s)

/-- `hilbert(level)`: the first position, then the L-system -/
def hilbertPts (level : Nat) : List (Int × Int) :=
  (0, 0) :: (hilbertGen level 1 { x := 0, y := 0, dx := 1, dy := 0 }).1

/-- `int(ceil(log(n, 2.0))) if n >= 1 else 0` (exact: least `L` with `n ≤ 2^L`) -/
def clog2 (n : Nat) : Nat := if n ≤ 1 then 0 else Nat.log2 (n - 1) + 1

/-- `hilbert_chip_order(machine)` as the sequential placer sees it (a point with a negative
coordinate is no chip of any machine; the curve has none) -/
def hilbertChips (w h : Nat) : List Chip :=
  (hilbertPts (clog2 (max w h))).filterMap fun q =>
    if 0 ≤ q.1 ∧ 0 ≤ q.2 then some (q.1.toNat, q.2.toNat) else none

/-! ### rand.py -/

/-- the placement loop; one oracle element (the chip returned by `random.sample`) is consumed
per iteration of the inner `while True` -/
def randLoop (vr : VR) : List Chip → List Vtx → List Chip → Machine → Placement → M Placement
  | _, [], _, _, p => .ok p
  | [], _ :: _, [], _, _ => .error .insufficient
  | [], _ :: _, _ :: _, _, _ => .error .badOracle
  | pick :: picks, v :: vs, locs, m, p =>
    if locs.isEmpty then .error .insufficient
    else if !locs.contains pick then .error .badOracle
    else
      match aget vr v with
      | none => .error .keyError
      | some d =>
        match m.get pick with
        | none => .error .indexError
        | some cur =>
          let r := sub cur d
          if over r then randLoop vr picks (v :: vs) (locs.erase pick) m p
          else
            match m.set pick r with
            | none => .error .indexError
            | some m' => randLoop vr picks vs locs m' (aset p v pick)

/-- `rand.place(vertices_resources, nets, machine, constraints, random)` -/
def randPlace (vr : VR) (cs : List Constraint) (m : Machine) (picks : List Chip) : M Placement := do
  let (vr', cs', subs) ← applySame vr cs
  let (m', fixed) ← prepareLoop vr' cs' m []
  let movable := (keys vr').filter fun v => !(aget fixed v).isSome
  let p ← randLoop vr' picks movable m'.chips m' fixed
  finalise subs p

/-! ### sa/algorithm.py -/

inductive Adv where
  | found (c : Chip) (rest : List Chip) (r : Res)
  | exhausted
  | fail (e : Err)

/-- advance through the remaining locations until the vertex fits (`cur` = current location,
the list = the locations not yet visited) -/
def advance (m : Machine) (d : Res) : Chip → List Chip → Adv
  | cur, [] =>
    match m.get cur with
    | none => .fail .indexError
    | some free => if over (sub free d) then .exhausted else .found cur [] (sub free d)
  | cur, c :: rest =>
    match m.get cur with
    | none => .fail .indexError
    | some free =>
      if over (sub free d) then advance m d c rest else .found cur (c :: rest) (sub free d)

/-- `_initial_placement`: `locs` = the shuffled `list(machine)` *after* the current location,
`cur` the current location -/
def initLoop (vr : VR) : List Vtx → Chip → List Chip → Machine → Placement → M (Machine × Placement)
  | [], _, _, m, p => .ok (m, p)
  | v :: vs, cur, locs, m, p =>
    match aget vr v with
    | none => .error .keyError
    | some d =>
      match advance m d cur locs with
      | .fail e => .error e
      | .exhausted => .error .insufficient
      | .found c locs' r =>
        match m.set c r with
        | none => .error .indexError
        | some m' => initLoop vr vs c locs' m' (aset p v c)

def initialPlacement (vr : VR) (m : Machine) (locs : List Chip) (vs : List Vtx) :
    M (Machine × Placement) :=
  match locs with
  | [] => .error .insufficient
  | c :: rest => initLoop vr vs c rest m []

/-! ### sa/python_kernel.py -/

structure SA where
  m : Machine
  p : Placement
  l2v : List (Chip × List Vtx)
  deriving Repr

/-- `_get_candidate_swap`: `none` = the situation is impossible -/
def candidate (vr : VR) (fixed : List Vtx) (need : Res) : List Vtx → Res → List Vtx → M (Option (List Vtx))
  | vs, free, acc =>
    if !over (sub free need) then .ok (some acc)
    else
      match vs with
      | [] => .ok none
      | v :: rest =>
        if v ∈ fixed then candidate vr fixed need rest free acc
        else
          match aget vr v with
          | none => .error .keyError
          | some d => candidate vr fixed need rest (add free d) (acc ++ [v])

/-- `_swap(vas, a, vbs, b, ...)` -/
def swap (vr : VR) (s : SA) (vas : List Vtx) (a : Chip) (vbs : List Vtx) (b : Chip) : M SA := do
  let la ← (aget s.l2v a).elim (.error .keyError) pure
  let lb ← (aget s.l2v b).elim (.error .keyError) pure
  let ra ← (s.m.get a).elim (.error .indexError) pure
  let rb ← (s.m.get b).elim (.error .indexError) pure
  let step1 : M (Placement × List Vtx × List Vtx × Res × Res) :=
    vas.foldlM (fun (st : Placement × List Vtx × List Vtx × Res × Res) va =>
      let (p, la, lb, ra, rb) := st
      if va ∉ la then (.error .valueError : M _) else
      match aget vr va with
      | none => .error .keyError
      | some d => .ok (aset p va b, la.erase va, lb ++ [va], add ra d, sub rb d)) (s.p, la, lb, ra, rb)
  let st1 ← step1
  let st2 ← vbs.foldlM (fun (st : Placement × List Vtx × List Vtx × Res × Res) vb =>
      let (p, la, lb, ra, rb) := st
      if vb ∉ lb then (.error .valueError : M _) else
      match aget vr vb with
      | none => .error .keyError
      | some d => .ok (aset p vb a, la ++ [vb], lb.erase vb, sub ra d, add rb d)) st1
  let (p, la, lb, ra, rb) := st2
  -- when a = b the two names alias the same Python list; `_step` never calls it that way
  let m1 ← (s.m.set a ra).elim (.error .indexError) pure
  let m2 ← (m1.set b rb).elim (.error .indexError) pure
  pure { m := m2, p := p, l2v := aset (aset s.l2v a la) b lb }

/-- one `_step` given the drawn vertex (one of the movable vertices: a fixed vertex is not a
possible draw), the drawn destination (≠ source) and the final accept decision; returns the new
state and whether the swap was possible at all -/
def saStep (vr : VR) (fixed : List Vtx) (s : SA) (src : Vtx) (dst : Chip) (accept : Bool) : M (SA × Bool) :=
  -- `random.choice(vertices)`: `vertices` is the kernel's list of *movable* vertices
  if src ∈ fixed then .error .badOracle else
  match aget s.p src with
  | none => .error .keyError
  | some srcLoc =>
    if dst = srcLoc then .error .badOracle
    else if !s.m.ok dst then .ok (s, false)
    else
      match aget vr src, s.m.get dst, aget s.l2v dst, s.m.get srcLoc with
      | some need, some free, some vs, some srcFree => do
        match ← candidate vr fixed need vs free [] with
        | none => pure (s, false)
        | some dvs =>
          let back ← dvs.foldlM (fun (r : Res) v =>
            match aget vr v with
            | none => (.error .keyError : M Res)
            | some d => .ok (sub r d)) (add srcFree need)
          if over back then pure (s, false)
          else do
            let s1 ← swap vr s [src] srcLoc dvs dst
            if accept then pure (s1, true)
            else do
              let s2 ← swap vr s1 [src] dst dvs srcLoc
              pure (s2, true)
      | none, _, _, _ => .error .keyError
      | _, none, _, _ => .error .indexError
      | _, _, none, _ => .error .keyError
      | _, _, _, none => .error .indexError

structure Step where
  src : Vtx
  dst : Chip
  accept : Bool

def saRun (vr : VR) (fixed : List Vtx) : List Step → SA → List Bool → M (SA × List Bool)
  | [], s, fl => .ok (s, fl)
  | st :: rest, s, fl => do
    let (s', f) ← saStep vr fixed s st.src st.dst st.accept
    saRun vr fixed rest s' (fl ++ [f])

/-- `PythonKernel.__init__`: the location-to-vertices lookup -/
def mkL2v (m : Machine) (p : Placement) : M (List (Chip × List Vtx)) :=
  p.foldlM (fun l (vc : Vtx × Chip) =>
    match aget l vc.2 with
    | none => (.error .keyError : M _)
    | some vs => .ok (aset l vc.2 (vs ++ [vc.1]))) (m.chips.map fun c => (c, []))

/-- `sa.place` given the two shuffles and, when the kernel is used, the steps drawn.
`steps = none` is the "trivial solution" return. -/
def saPlace (vr : VR) (cs : List Constraint) (m : Machine) (locs : List Chip) (vs : List Vtx)
    (steps : Option (List Step)) : M (Placement × List Bool) :=
  if vr.length = 0 then .ok ([], [])
  else do
    let (vr', cs', subs) ← applySame vr cs
    let (m', fixed) ← prepareLoop vr' cs' m []
    let (m'', init) ← initialPlacement vr' m' locs vs
    -- `initial_placements.update(fixed_vertices)`
    let p0 := fixed.foldl (fun q (vc : Vtx × Chip) => aset q vc.1 vc.2) init
    match steps with
    | none => do
      let p ← finalise subs p0
      pure (p, [])
    | some sts => do
      let l2v ← mkL2v m'' p0
      let (s, fl) ← saRun vr' (keys fixed) sts { m := m'', p := p0, l2v := l2v } []
      let p ← finalise subs s.p
      pure (p, fl)

/-! ### specification: feasible placements (written from the property text) -/

/-- capacity of a chip as the caller described it -/
def cap (m : Machine) (c : Chip) : Res := (aget m.exc c).getD m.res

def dem (d : Res) (i : Nat) : Int := d.getD i 0

/-- amount of resource `i` reserved on chip `c` by the constraints -/
def reserved : List Constraint → Chip → Nat → Int
  | [], _, _ => 0
  | .reserve r amt at_ :: cs, c, i =>
    (if r = i ∧ (at_ = none ∨ at_ = some c) then amt else 0) + reserved cs c i
  | _ :: cs, c, i => reserved cs c i

/-- total demand for resource `i` of the vertices placed on chip `c` -/
def load (vr : VR) (p : Placement) (c : Chip) (i : Nat) : Int :=
  match vr with
  | [] => 0
  | (v, d) :: t => (if aget p v = some c then dem d i else 0) + load t p c i

/-- **Feasible**: every vertex on exactly one working chip; for every working chip and every
resource of that chip, demand + reservations ≤ capacity; location and same-chip constraints
honoured. -/
structure Feasible (vr : VR) (cs : List Constraint) (m : Machine) (p : Placement) : Prop where
  keysNodup : (keys p).Nodup
  placed : ∀ v, v ∈ keys vr → ∃ c, aget p v = some c ∧ m.ok c = true
  onlyVertices : ∀ v, v ∈ keys p → v ∈ keys vr
  capacity : ∀ c, m.ok c = true → ∀ i, i < (cap m c).length →
      load vr p c i + reserved cs c i ≤ dem (cap m c) i
  location : ∀ v c, Constraint.loc v c ∈ cs → aget p v = some c
  sameChip : ∀ vs, Constraint.same vs ∈ cs → ∀ a ∈ vs, ∀ b ∈ vs, aget p a = aget p b

def vertexOk (m : Machine) (p : Placement) (v : Vtx) : Bool :=
  match aget p v with
  | some c => m.ok c
  | none => false

def chipFits (vr : VR) (cs : List Constraint) (m : Machine) (p : Placement) (c : Chip) : Bool :=
  (List.range (cap m c).length).all fun i => decide (load vr p c i + reserved cs c i ≤ dem (cap m c) i)

def constraintOk (p : Placement) : Constraint → Bool
  | .loc v c => decide (aget p v = some c)
  | .same vs => vs.all fun a => vs.all fun b => decide (aget p a = aget p b)
  | _ => true

/-- decidable version of `Feasible`, with the reason of the first failure -/
def checkPlacement (vr : VR) (cs : List Constraint) (m : Machine) (p : Placement) : Option String :=
  if !decide (keys p).Nodup then some "a vertex is placed twice"
  else if !(keys vr).all (vertexOk m p) then some "a vertex is not placed on a working chip"
  else if !(keys p).all (fun v => (keys vr).contains v) then some "placement of an unknown vertex"
  else if !m.chips.all (chipFits vr cs m p) then some "a chip's resources are exceeded"
  else if !cs.all (constraintOk p) then some "a location or same-chip constraint is not honoured"
  else none

def validPlacement (vr : VR) (cs : List Constraint) (m : Machine) (p : Placement) : Bool :=
  (checkPlacement vr cs m p).isNone

/-! ### line protocol -/
open Lean Rig.P

def vtxOfJson (j : Json) : R Vtx :=
  match j with
  | .num _ => Vtx.o <$> asNat j
  | _ => Vtx.m <$> nat j "m"

def vtxToJson : Vtx → Json
  | .o n => jNat n
  | .m k => Json.mkObj [("m", jNat k)]

def chipOfJson (j : Json) : R Chip := asPair j asNat asNat
def chipToJson (c : Chip) : Json := jPair (jNat c.1) (jNat c.2)
def resOfJson (j : Json) : R Res := do (← asArr j).mapM asInt

def machineOfJson (j : Json) : R Machine := do
  pure { w := ← nat j "w", h := ← nat j "h", res := ← ints j "res",
         exc := ← (← arr j "exc").mapM (fun e => asPair e chipOfJson resOfJson),
         dead := ← (← arr j "dead").mapM chipOfJson }

def constraintOfJson (j : Json) : R Constraint := do
  match ← str j "t" with
  | "loc" => pure (.loc (← vtxOfJson (← field j "v")) (← chipOfJson (← field j "c")))
  | "same" => pure (.same (← (← arr j "vs").mapM vtxOfJson))
  | "res" => pure (.reserve (← nat j "r") (← int j "amt") (← opt j "c" chipOfJson))
  | "ep" => pure (.endpoint (← vtxOfJson (← field j "v")))
  | _ => pure .other

def constraintToJson : Constraint → Json
  | .loc v c => Json.mkObj [("t", "loc"), ("v", vtxToJson v), ("c", chipToJson c)]
  | .same vs => Json.mkObj [("t", "same"), ("vs", jList (vs.map vtxToJson))]
  | .reserve r a c => Json.mkObj [("t", "res"), ("r", jNat r), ("amt", jInt a), ("c", jOpt chipToJson c)]
  | .endpoint v => Json.mkObj [("t", "ep"), ("v", vtxToJson v)]
  | .other => Json.mkObj [("t", "other")]

def vrOfJson (j : Json) : R VR := do
  (← arr j "vr").mapM (fun e => asPair e vtxOfJson resOfJson)

def csOfJson (j : Json) : R (List Constraint) := do (← arr j "cs").mapM constraintOfJson

def errName : Err → String
  | .insufficient => "InsufficientResourceError"
  | .invalidConstraint => "InvalidConstraintError"
  | .keyError => "KeyError"
  | .indexError => "IndexError"
  | .valueError => "ValueError"
  | .typeError => "TypeError"
  | .badOracle => "BadOracle"
  | .fuel => "Fuel"

def placementToJson (p : Placement) : Json :=
  jList (p.map fun vc => jPair (vtxToJson vc.1) (chipToJson vc.2))

def placementOfJson (j : Json) : R Placement := do
  (← asArr j).mapM (fun e => asPair e vtxOfJson chipOfJson)

def resultJson {α} (f : α → Json) : M α → Json
  | .ok a => jOk (f a)
  | .error e => jErr (errName e)

def stepOfJson (j : Json) : R Step := do
  pure { src := ← vtxOfJson (← field j "src"), dst := ← chipOfJson (← field j "dst"),
         accept := ← bool j "accept" }

def handle (op : String) (j : Json) : R Json := do
  let vr ← vrOfJson j
  let cs ← csOfJson j
  let m ← machineOfJson j
  match op with
  | "seq" =>
    let vo ← opt j "vo" (fun a => do (← asArr a).mapM vtxOfJson)
    let co ← opt j "co" (fun a => do (← asArr a).mapM chipOfJson)
    pure (resultJson placementToJson (seqPlace vr cs m vo co))
  | "rand" =>
    let picks ← (← arr j "picks").mapM chipOfJson
    pure (resultJson placementToJson (randPlace vr cs m picks))
  | "sa" =>
    let locs ← (← arr j "locs").mapM chipOfJson
    let vs ← (← arr j "vs").mapM vtxOfJson
    let steps ← opt j "steps" (fun a => do (← asArr a).mapM stepOfJson)
    pure (resultJson (fun (pf : Placement × List Bool) =>
      Json.mkObj [("p", placementToJson pf.1), ("feasible", jList (pf.2.map Json.bool))])
      (saPlace vr cs m locs vs steps))
  | "same" =>
    pure (resultJson (fun (r : VR × List Constraint × List (List Vtx)) =>
      Json.mkObj [("vr", jList (r.1.map fun e => jPair (vtxToJson e.1) (jInts e.2))),
                  ("cs", jList (r.2.1.map constraintToJson)),
                  ("subs", jList (r.2.2.map fun vs => jList (vs.map vtxToJson)))])
      (applySame vr cs))
  | "prep" =>
    -- the constraint loop alone (no same-chip handling): machine after the loop
    pure (resultJson (fun (r : Machine × Placement) =>
      Json.mkObj [("res", jInts r.1.res),
                  ("exc", jList (r.1.exc.map fun e => jPair (chipToJson e.1) (jInts e.2))),
                  ("p", placementToJson r.2)])
      (prepareLoop vr cs m []))
  | "finalise" =>
    let subs ← (← arr j "subs").mapM (fun a => do (← asArr a).mapM vtxOfJson)
    let p ← placementOfJson (← field j "p")
    pure (resultJson placementToJson (finalise subs p))
  | "hilbert" =>
    -- the points of `hilbert(level)` / the chip order for a w x h machine
    match ← opt j "level" asNat with
    | some l => pure (jList ((hilbertPts l).map fun q => jPair (jInt q.1) (jInt q.2)))
    | none => pure (Json.mkObj [("level", jNat (clog2 (max m.w m.h))),
                                ("order", jList ((hilbertChips m.w m.h).map chipToJson))])
  | "hilbert_level" => pure (jNat (clog2 (max m.w m.h)))
  | "valid" =>
    let p ← placementOfJson (← field j "p")
    match checkPlacement vr cs m p with
    | none => pure (Json.mkObj [("valid", Json.bool true)])
    | some why => pure (Json.mkObj [("valid", Json.bool false), ("why", Json.str why)])
  | _ => .error s!"unknown op {op}"

end Rig.C02
