/-
C19 - model of the SpiNN-5 board geometry functions of rig/geometry.py
(`spinn5_eth_coords`, `spinn5_local_eth_coord`, `spinn5_chip_coord`,
`spinn5_fpga_link`, `standard_system_dimensions`) and the independent,
hand-written description of the 48-chip board and the Ethernet lattice
against which the generated tables are proved.

Python integers are `Int`; Python `%` is floor-mod (`pymod` = `Int.fmod`,
equal to `%` for a positive modulus), Python `//` by a positive literal is
`Int` division.  Every exception the code can raise is a constructor of `Err`.
-/
import RigModel.Model.Proto
import RigModel.Gen.Spinn5

namespace Rig.C19
open Rig.Gen.Spinn5

abbrev Pt := Int × Int

inductive Err where
  | zeroDivision   -- `% 0`
  | indexError     -- table index out of range (unreachable for a 12 x 12 table)
  | valueError     -- standard_system_dimensions: not a multiple of 3 / math domain error
  deriving Repr, DecidableEq

/-- Python `a % b` (result has the sign of `b`) -/
def pymod (a b : Int) : Int := Int.fmod a b

/-! ### The code -/

/-- `SPINN5_ETH_OFFSET[j][i]` for non-negative indices (they come out of `% 12`) -/
def offAt (i j : Int) : Except Err Pt :=
  match ethOffset[j.toNat]? with
  | some row =>
    match row[i.toNat]? with
    | some d => .ok d
    | none => .error .indexError
  | none => .error .indexError

/-- `spinn5_local_eth_coord(x, y, w, h, root_x, root_y)` -/
def localEthCoord (x y w h rx ry : Int) : Except Err Pt := do
  let d ← offAt (pymod (x - rx) 12) (pymod (y - ry) 12)
  if w = 0 then .error .zeroDivision
  else if h = 0 then .error .zeroDivision
  else .ok (pymod (x + d.1) w, pymod (y + d.2) h)

/-- `spinn5_chip_coord(x, y, root_x, root_y)` -/
def chipCoord (x y rx ry : Int) : Except Err Pt := do
  let d ← offAt (pymod (x - rx) 12) (pymod (y - ry) 12)
  .ok (-d.1, -d.2)

/-- `spinn5_fpga_link(x, y, link, root_x, root_y)`: `dict.get` on the table -/
def fpgaLink (x y link rx ry : Int) : Except Err (Option (Nat × Nat)) := do
  let b ← chipCoord x y rx ry
  .ok (fpgaLinks.lookup (b.1, b.2, link))

/-- `range(0, w, 12)` -/
def range12 (w : Int) : List Int := (List.range ((w + 11) / 12).toNat).map (fun (a : Nat) => 12 * (a : Int))

/-- `spinn5_eth_coords(width, height, root_x, root_y)` as the list of yielded
points, in order.  As in the source `root_x` is reduced modulo 12 (twice) and
`root_y` is not reduced at all. -/
def ethCoords (width height rx ry : Int) : List Pt :=
  let rx := pymod (pymod rx 12) 12
  let w := (width + 11) / 12 * 12
  let h := (height + 11) / 12 * 12
  (range12 w).flatMap fun x =>
    (range12 h).flatMap fun y =>
      ethTriple.filterMap fun d =>
        let nx := pymod (x + d.1 + rx) w
        let ny := pymod (y + d.2 + ry) h
        if nx < width ∧ ny < height then some (nx, ny) else none

/-- the `for h in reversed(range(1, s + 1)): if k % h == 0: break` loop, started at `s` -/
def searchDown (k : Nat) : Nat → Nat
  | 0 => 0
  | h + 1 => if k % (h + 1) = 0 then h + 1 else searchDown k h

/-- `standard_system_dimensions(num_boards)`; `int(sqrt(k))` is modelled by the
integer square root (exact for k < 2^52, validated by correspondence) -/
def stdDims (n : Int) : Except Err (Int × Int) :=
  if n = 0 then .ok (0, 0)
  else if n = 1 then .ok (8, 8)
  else if pymod n 3 ≠ 0 then .error .valueError
  else if n < 0 then .error .valueError      -- sqrt of a negative number: "math domain error"
  else
    let k := (n / 3).toNat
    let h := searchDown k (Nat.sqrt k)
    let w := k / h
    .ok (((w * 12 : Nat) : Int), ((h * 12 : Nat) : Int))

/-! ### Independent description of the board tiling (hand-written specification) -/

/-- a SpiNN-5 board, relative to its Ethernet chip: 48 chips -/
def InBoard (b : Pt) : Prop :=
  0 ≤ b.1 ∧ b.1 ≤ 7 ∧ 0 ≤ b.2 ∧ b.2 ≤ 7 ∧ b.1 - b.2 ≤ 4 ∧ b.2 - b.1 ≤ 3

instance (b : Pt) : Decidable (InBoard b) := by unfold InBoard; infer_instance

/-- the lattice `{(0,0), (4,8), (8,4)} + 12 Z^2` -/
def IsEth (p : Pt) : Prop :=
  (p.1 % 12 = 0 ∧ p.2 % 12 = 0) ∨ (p.1 % 12 = 4 ∧ p.2 % 12 = 8) ∨ (p.1 % 12 = 8 ∧ p.2 % 12 = 4)

instance (p : Pt) : Decidable (IsEth p) := by unfold IsEth; infer_instance

/-- `e` is the Ethernet chip of some board when the root chip is at `root` -/
def IsEthAt (root e : Pt) : Prop := IsEth (e.1 - root.1, e.2 - root.2)

instance (r e : Pt) : Decidable (IsEthAt r e) := by unfold IsEthAt; infer_instance

/-- chip `c` lies on the board whose Ethernet chip is `e` (in the plane) -/
def OnBoard (root e c : Pt) : Prop := IsEthAt root e ∧ InBoard (c.1 - e.1, c.2 - e.2)

instance (root e c : Pt) : Decidable (OnBoard root e c) := by unfold OnBoard; infer_instance

/-- the 48 board chips as a list (for bounded quantification) -/
def boardChips : List Pt :=
  (List.range 8).flatMap fun (x : Nat) => (List.range 8).filterMap fun (y : Nat) =>
    if InBoard ((x : Int), (y : Int)) then some ((x : Int), (y : Int)) else none

/-- documented direction of each link: east, north-east, north, west, south-west, south -/
def dirVec (l : Int) : Option Pt :=
  if l = 0 then some (1, 0) else if l = 1 then some (1, 1) else if l = 2 then some (0, 1)
  else if l = 3 then some (-1, 0) else if l = 4 then some (-1, -1) else if l = 5 then some (0, -1)
  else none

/-- `Links(l).to_vector()` from the generated enumeration -/
def linkVec (l : Int) : Option Pt := (links.find? (fun e => e.2.1 == l)).map (fun e => e.2.2.1)

/-- **Specification of the local Ethernet chip and on-board coordinate.**  `b` is a board
chip, `c - b` is an Ethernet chip for this root, and `e` is that chip reduced into the
machine (for `w`, `h` multiples of 12 this is the torus statement, see Props). -/
def SpecLocal (root c : Pt) (w h : Int) (e b : Pt) : Prop :=
  InBoard b ∧ IsEthAt root (c.1 - b.1, c.2 - b.2) ∧ e.1 = (c.1 - b.1) % w ∧ e.2 = (c.2 - b.2) % h

instance (root c : Pt) (w h : Int) (e b : Pt) : Decidable (SpecLocal root c w h e b) := by
  unfold SpecLocal; infer_instance

/-- the part of `SpecLocal` that concerns the reported Ethernet chip alone (the board chip is
searched in the hand-written board, not taken from `spinn5_chip_coord`) -/
def SpecLocalE (root c : Pt) (w h : Int) (e : Pt) : Prop :=
  ∃ b ∈ boardChips, SpecLocal root c w h e b

instance (root c : Pt) (w h : Int) (e : Pt) : Decidable (SpecLocalE root c w h e) := by
  unfold SpecLocalE; infer_instance

/-- all points of the `width x height` rectangle -/
def grid (width height : Int) : List Pt :=
  (List.range width.toNat).flatMap fun (x : Nat) => (List.range height.toNat).map fun (y : Nat) => ((x : Int), (y : Int))

/-- **Specification of the Ethernet chip list**: no repetitions, and a point is listed
exactly when it lies in the machine and is a lattice point for this root. -/
def SpecEthCoords (root : Pt) (width height : Int) (l : List Pt) : Prop :=
  l.Nodup ∧
  (∀ p ∈ l, 0 ≤ p.1 ∧ p.1 < width ∧ 0 ≤ p.2 ∧ p.2 < height ∧ IsEthAt root p) ∧
  (∀ p ∈ grid width height, IsEthAt root p → p ∈ l)

instance (root : Pt) (width height : Int) (l : List Pt) : Decidable (SpecEthCoords root width height l) := by
  unfold SpecEthCoords; infer_instance

/-- **Specification of one FPGA link query**: for the board chip `b` that `c` is (found from
the independent description, not from the table), a result is reported iff the neighbour
in direction `l` is not a chip of the same board. -/
def SpecFpga (root c : Pt) (l : Int) (r : Option (Nat × Nat)) : Prop :=
  ∀ b ∈ boardChips, IsEthAt root (c.1 - b.1, c.2 - b.2) →
    match dirVec l with
    | some v => (r.isSome ↔ ¬ InBoard (b.1 + v.1, b.2 + v.2))
    | none => r = none

instance (root c : Pt) (l : Int) (r : Option (Nat × Nat)) : Decidable (SpecFpga root c l r) := by
  unfold SpecFpga
  cases dirVec l <;> infer_instance

/-- **Specification of the FPGA numbering of a whole board**: `rs` are the results for
`boardChips x [0..5]` (chip-major); the defined ones are pairwise distinct, lie in
`{0,1,2} x {0..15}`, and there are 48 of them (so every FPGA link is used exactly once). -/
def SpecFpgaBoard (rs : List (Option (Nat × Nat))) : Prop :=
  let vals := rs.filterMap id
  vals.Nodup ∧ (∀ v ∈ vals, v.1 < 3 ∧ v.2 < 16) ∧ vals.length = 48

instance (rs : List (Option (Nat × Nat))) : Decidable (SpecFpgaBoard rs) := by
  unfold SpecFpgaBoard; infer_instance

/-- **Specification of the standard dimensions** for `n = 3k`, `k ≥ 1` boards: multiples of
12 chips, `k` triads in total, at least as wide as tall, and no squarer factorisation. -/
def SpecStdDims (n : Nat) (w h : Nat) : Prop :=
  w % 12 = 0 ∧ h % 12 = 0 ∧ (w / 12) * (h / 12) = n / 3 ∧ h ≤ w ∧
  ∀ d, d < n / 3 + 1 → (n / 3) % d = 0 → d * d ≤ n / 3 → d ≤ h / 12

instance (n w h : Nat) : Decidable (SpecStdDims n w h) := by
  unfold SpecStdDims; infer_instance

/-- no divisor of `k` among `lo + 1, …, lo + c` (tail-recursive scan from the top) -/
def noDivFrom (k lo : Nat) : Nat → Bool
  | 0 => true
  | c + 1 => if k % (lo + c + 1) = 0 then false else noDivFrom k lo c

/-- `SpecStdDims` with the "no squarer factorisation" clause checked only between the reported
height and the integer square root - equivalent (Props: `spec_std_dims_fast_iff`) and cheap
for huge board counts whose answer is close to square. -/
def SpecStdDimsFast (n w h : Nat) : Prop :=
  w % 12 = 0 ∧ h % 12 = 0 ∧ (w / 12) * (h / 12) = n / 3 ∧ h ≤ w ∧
  noDivFrom (n / 3) (h / 12) (Nat.sqrt (n / 3) - h / 12) = true

instance (n w h : Nat) : Decidable (SpecStdDimsFast n w h) := by
  unfold SpecStdDimsFast; infer_instance

/-! ### line protocol -/
open Lean Rig.P

def errName : Err → String
  | .zeroDivision => "ZeroDivisionError"
  | .indexError => "IndexError"
  | .valueError => "ValueError"

def jPt (p : Pt) : Json := jPair (jInt p.1) (jInt p.2)
def jNN (p : Nat × Nat) : Json := jPair (jNat p.1) (jNat p.2)

def res (f : α → Json) : Except Err α → Json
  | .ok v => jOk (f v)
  | .error e => jErr (errName e)

def asPt (j : Json) : R Pt := asPair j asInt asInt
def asNN (j : Json) : R (Nat × Nat) := asPair j asNat asNat

def handle (op : String) (j : Json) : R Json := do
  match op with
  | "local_eth" =>
    pure (res jPt (localEthCoord (← int j "x") (← int j "y") (← int j "w") (← int j "h") (← int j "rx") (← int j "ry")))
  | "chip_coord" =>
    pure (res jPt (chipCoord (← int j "x") (← int j "y") (← int j "rx") (← int j "ry")))
  | "fpga_link" =>
    pure (res (jOpt jNN) (fpgaLink (← int j "x") (← int j "y") (← int j "link") (← int j "rx") (← int j "ry")))
  | "eth_coords" =>
    pure (jList ((ethCoords (← int j "width") (← int j "height") (← int j "rx") (← int j "ry")).map jPt))
  | "std_dims" => pure (res jPt (stdDims (← int j "n")))
  | "link_vec" => pure (jOpt jPt (linkVec (← int j "link")))
  | "board_chips" => pure (jList (boardChips.map jPt))
  -- specification predicates, evaluated on the implementation's outputs
  | "spec_local" =>
    let e ← asPt (← field j "e")
    let b ← asPt (← field j "b")
    pure (Json.bool (decide (SpecLocal (← int j "rx", ← int j "ry") (← int j "x", ← int j "y")
      (← int j "w") (← int j "h") e b)))
  | "spec_local_e" =>
    let e ← asPt (← field j "e")
    pure (Json.bool (decide (SpecLocalE (← int j "rx", ← int j "ry") (← int j "x", ← int j "y")
      (← int j "w") (← int j "h") e)))
  | "spec_eth_coords" =>
    let l ← (← arr j "out").mapM asPt
    pure (Json.bool (decide (SpecEthCoords (← int j "rx", ← int j "ry") (← int j "width") (← int j "height") l)))
  | "spec_fpga" =>
    let r ← opt j "out" asNN
    pure (Json.bool (decide (SpecFpga (← int j "rx", ← int j "ry") (← int j "x", ← int j "y") (← int j "link") r)))
  | "spec_fpga_board" =>
    let rs ← (← arr j "out").mapM (fun v => asOpt v asNN)
    pure (Json.bool (decide (SpecFpgaBoard rs)))
  | "spec_std_dims" =>
    pure (Json.bool (decide (SpecStdDims (← nat j "n") (← nat j "w") (← nat j "h"))))
  | "spec_std_dims_fast" =>
    pure (Json.bool (decide (SpecStdDimsFast (← nat j "n") (← nat j "w") (← nat j "h"))))
  | "spec_link_vec" =>
    let v ← opt j "out" asPt
    pure (Json.bool (decide (dirVec (← int j "link") = v)))
  | _ => .error s!"unknown op {op}"

end Rig.C19
