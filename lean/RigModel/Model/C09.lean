/-
C09 - application loading (rig/machine_control/machine_controller.py):
  load_application, flood_fill_aplx, _send_ffs/_send_ffcs/_send_ffd/_send_ffe,
  _get_next_nn_id, send_signal("start"), count_cores_in_state("wait"),
  read_vcpu_struct_field("cpu_state"), read_struct_field("sv", "sdram_sys")
and the machine specification the theorems are stated against:
  per core (state, app id, image); one flood fill in flight
  (FFS, FFCS*, FFD*, FFE); every chip either takes part in a whole fill or -
  when it is in that fill's *missed* set (an oracle input) - ignores it.

Non-determinism / environment made explicit:
  * `MCfg.missed k x y`  - chip (x, y) silently misses the k-th fill (k = number of
    start packets seen before it); theorems quantify over every such function;
  * `Ctl.compress`       - `regions.compress_flood_fill_regions` (property C12); the general
    theorems assume only its contract (`CompressOK`); the `_c12` theorems instantiate it with
    C12's model (`compressC12` = `Rig.C12.compressD`), for which the contract is proved.  The driver
    runs the controller both ways: with the pairs the implementation produced (and checks the
    contract on them) and with C12's model (op `load` without a `compress` table).
-/
import RigModel.Model.Proto
import RigModel.Model.C07
import RigModel.Model.C12
import RigModel.Gen.Load
import RigModel.Gen.Scp

namespace Rig.C09
open Rig.Gen.Load Rig.Gen.Scp

/-! ### region words (documented in rig/machine_control/regions.py) -/

/-- Does the 32-bit region word select chip (x, y)?  Bits 17:16 give the level L; the region
is the square of side `4^(4-L)` chips whose base is (bits 31:24, bits 23:18 * 4); it is cut
into 4 x 4 blocks of side `4^(3-L)` and bit `bx + 4*by` of the low half-word selects block
(bx, by). -/
def selects (region x y : Nat) : Bool :=
  let level := region / 65536 % 4
  let side := 4 ^ (4 - level)
  let sub := side / 4
  let baseX := region / 16777216 % 256
  let baseY := region / 65536 % 256 / 4 * 4
  x / side * side == baseX && y / side * side == baseY &&
    (region % 65536).testBit (x / sub % 4 + 4 * (y / sub % 4))

/-- a list of (region, core mask) pairs selects core p of chip (x, y) -/
def selectsCore (regs : List (Nat × Nat)) (x y p : Nat) : Bool :=
  regs.any fun rm => selects rm.1 x y && rm.2.testBit p

/-- strict lexicographic order on (region, core mask) pairs: the order FFCS packets must have -/
def pairLt (a b : Nat × Nat) : Bool := a.1 < b.1 || (a.1 == b.1 && a.2 < b.2)

def strictlyIncreasing : List (Nat × Nat) → Bool
  | [] => true
  | [_] => true
  | a :: b :: l => pairLt a b && strictlyIncreasing (b :: l)

/-! ### SCP requests and their meaning for the machine -/

structure Req where
  x : Nat
  y : Nat
  p : Nat
  cmd : Nat
  arg1 : Nat
  arg2 : Nat
  arg3 : Nat
  data : List Nat
  deriving Repr, DecidableEq

/-- what the machine understands of a request -/
inductive Pkt where
  | ffs (pid nBlocks : Nat)
  | ffcs (region mask : Nat)
  | ffd (pid block words addr : Nat) (data : List Nat)
  | ffe (pid appId flags : Nat)
  | count (state mask appId : Nat)
  | signal (sig mask appId : Nat)
  | read (x y addr len : Nat)
  | other
  deriving Repr, DecidableEq

/-- field layout of the nearest-neighbour / flood-fill / signal / read commands
(arg1 bits 31:24 of an NN packet = NN command; FFS: 23:16 id, 15:8 block count;
FFCS: 17:0 core mask, arg2 region; FFD: arg1 7:0 id, arg2 23:16 block, 15:8 word count - 1,
arg3 address; FFE: arg1 7:0 id, arg2 31:24 app id, 23:18 flags) -/
def decode (r : Req) : Pkt :=
  if r.cmd = cmdNnp then
    let c := r.arg1 / 16777216 % 256
    if c = nnFfs then .ffs (r.arg1 / 65536 % 256) (r.arg1 / 256 % 256)
    else if c = nnFfcs then .ffcs r.arg2 (r.arg1 % 262144)
    else if c = nnFfe then .ffe (r.arg1 % 256) (r.arg2 / 16777216 % 256) (r.arg2 / 262144 % 64)
    else .other
  else if r.cmd = cmdFfd then
    .ffd (r.arg1 % 256) (r.arg2 / 65536 % 256) (r.arg2 / 256 % 256) r.arg3 r.data
  else if r.cmd = cmdSignal then
    if r.arg1 = diagCountType ∧ r.arg2 / 1048576 % 4 = diagCount ∧ r.arg2 / 4194304 % 4 = 1 then
      .count (r.arg2 / 65536 % 16) (r.arg2 / 256 % 256) (r.arg2 % 256)
    else if r.arg1 = sigStartType then
      .signal (r.arg2 / 65536 % 256) (r.arg2 / 256 % 256) (r.arg2 % 256)
    else .other
  else if r.cmd = cmdRead then .read r.x r.y r.arg1 r.arg2
  else .other

/-! ### machine specification -/

structure Core where
  state : Nat
  app : Nat
  image : List Nat
  deriving Repr, DecidableEq

/-- the fill in flight -/
structure Rx where
  idx : Nat                 -- which fill this is (index into the missed oracle)
  pid : Nat
  nBlocks : Nat
  got : Nat                 -- data blocks accepted so far
  next : Nat                -- address the next block must carry
  regs : List (Nat × Nat)   -- core selections received
  data : List Nat
  ok : Bool
  deriving Repr

structure MState where
  core : Nat → Nat → Nat → Core
  rx : Rx
  fills : Nat               -- start packets seen so far

structure MCfg where
  chips : List (Nat × Nat)
  missed : Nat → Nat → Nat → Bool
  sdramSys : Nat
  vcpuBase : Nat → Nat → Nat        -- sv.vcpu_base of chip (x, y): may differ from chip to chip

inductive Reply where
  | ok
  | count (n : Nat)
  | data (bytes : List Nat)
  | unmodelled
  deriving Repr, DecidableEq

def allCores (chips : List (Nat × Nat)) : List (Nat × Nat × Nat) :=
  chips.flatMap fun c => (List.range 18).map fun p => (c.1, c.2, p)

def matchesApp (c : Core) (state appId : Nat) : Bool := c.state == state && c.app == appId

/-- cores the fill in flight will load: on a chip of the machine that takes part in this fill,
core number below 18, selected by one of the received (region, mask) pairs -/
def takes (mc : MCfg) (rx : Rx) (x y p : Nat) : Bool :=
  mc.chips.contains (x, y) && !mc.missed rx.idx x y && decide (p < 18) && selectsCore rx.regs x y p

def stepP (mc : MCfg) (m : MState) : Pkt → MState × Reply
  | .ffs pid n =>
    ({ m with rx := { idx := m.fills, pid := pid, nBlocks := n, got := 0, next := 0, regs := [],
                      data := [], ok := true },
              fills := m.fills + 1 }, .ok)
  | .ffcs region mask => ({ m with rx := { m.rx with regs := m.rx.regs ++ [(region, mask)] } }, .ok)
  | .ffd pid block words addr data =>
    if pid = m.rx.pid ∧ block = m.rx.got ∧ data.length = 4 * (words + 1) ∧
        (m.rx.got = 0 ∨ addr = m.rx.next) then
      ({ m with rx := { m.rx with got := m.rx.got + 1, next := addr + data.length,
                                   data := m.rx.data ++ data } }, .ok)
    else ({ m with rx := { m.rx with ok := false } }, .ok)
  | .ffe pid appId flags =>
    if pid = m.rx.pid ∧ m.rx.ok = true ∧ m.rx.got = m.rx.nBlocks then
      let st := if flags % 2 = 1 then stWait else stRun
      ({ m with core := fun x y p => if takes mc m.rx x y p then ⟨st, appId, m.rx.data⟩ else m.core x y p,
                rx := { m.rx with ok := false } }, .ok)
    else ({ m with rx := { m.rx with ok := false } }, .ok)
  | .count state mask appId =>
    if mask = 255 then
      (m, .count ((allCores mc.chips).countP fun c => matchesApp (m.core c.1 c.2.1 c.2.2) state appId))
    else (m, .unmodelled)
  | .signal sig mask appId =>
    if sig = sigStart ∧ mask = 255 then
      ({ m with core := fun x y p =>
          if mc.chips.contains (x, y) && decide (p < 18) && matchesApp (m.core x y p) stWait appId
          then { m.core x y p with state := stRun } else m.core x y p }, .ok)
    else (m, .unmodelled)
  | .read x y addr len =>
    if addr = svBase + offSdramSys ∧ len = 4 then (m, .data (C07.le32 mc.sdramSys))
    else if addr = svBase + offVcpuBase ∧ len = 4 then (m, .data (C07.le32 (mc.vcpuBase x y)))
    else if mc.vcpuBase x y ≤ addr ∧ (addr - mc.vcpuBase x y) % vcpuSize = offCpuState ∧ len = 1 then
      (m, .data [(m.core x y ((addr - mc.vcpuBase x y) / vcpuSize)).state])
    else (m, .unmodelled)
  | .other => (m, .unmodelled)

def step (mc : MCfg) (m : MState) (r : Req) : MState × Reply := stepP mc m (decode r)

/-! ### controller model -/

structure App where
  name : Nat                              -- stands for the file name (key of the map)
  image : List Nat                        -- bytes of that file
  targets : List (Nat × Nat × List Nat)   -- {(x, y): cores}
  deriving Repr, DecidableEq

structure Ctl where
  buf : Nat                               -- scp_data_length
  compress : List (Nat × Nat × List Nat) → List (Nat × Nat)
  appId : Nat
  nTries : Nat
  wait : Bool
  useCount : Bool

/-- `compress_flood_fill_regions` as C12 models it: the `{(x, y): cores}` dictionary inserted into
the region tree in iteration order, the pairs emitted and sorted (`Rig.C12.compress`); outside
C12's domain (where the code raises ValueError) no pairs.  Props/C12 calls this `compressD`. -/
def compressC12 (tg : List (Nat × Nat × List Nat)) : List (Nat × Nat) :=
  match Rig.C12.compress (tg.flatMap fun e => e.2.2.map fun (p : Nat) => ((e.1 : Int), (e.2.1 : Int), (p : Int))) with
  | .ok out => out
  | .error _ => []

/-- controller + machine + the request/reply log (newest first) -/
structure Sim where
  m : MState
  nn : Nat                                -- MachineController._nn_id
  trace : List (Req × Reply)

def Sim.send (mc : MCfg) (s : Sim) (r : Req) : Sim × Reply :=
  let o := step mc s.m r
  ({ s with m := o.1, trace := (r, o.2) :: s.trace }, o.2)

def sendAll (mc : MCfg) (s : Sim) (rs : List Req) : Sim := rs.foldl (fun s r => (s.send mc r).1) s

def Reply.bytes : Reply → List Nat
  | .data b => b
  | _ => []

/-- little-endian value of a byte string -/
def leVal : List Nat → Nat
  | [] => 0
  | b :: l => b + 256 * leVal l

/-- `SCPConnection.read` (C07) of `len` bytes at `addr` of chip (x, y), replies concatenated -/
def readMem (mc : MCfg) (buf : Nat) (s : Sim) (x y addr len : Nat) : Sim × List Nat :=
  (C07.read buf addr len).foldl (fun (acc : Sim × List Nat) c =>
    let o := acc.1.send mc { x := x, y := y, p := 0, cmd := cmdRead, arg1 := c.addr, arg2 := c.size,
                             arg3 := c.dt, data := [] }
    (o.1, acc.2 ++ o.2.bytes)) (s, [])

/-- `_get_next_nn_id`: the new `_nn_id`; the id sent is twice this -/
def nextNn (n : Nat) : Nat := if n < 126 then n + 1 else 1

/-- `fr = NNConstants.forward << 8 | NNConstants.retry` -/
def fr : Nat := (nnForward <<< 8) ||| nnRetry

def nnReq (arg1 arg2 arg3 : Nat) : Req :=
  { x := 255, y := 255, p := 0, cmd := cmdNnp, arg1 := arg1, arg2 := arg2, arg3 := arg3, data := [] }

/-- `_send_ffs` -/
def ffsReq (pid nBlocks : Nat) : Req :=
  nnReq ((nnFfs <<< 24) ||| (pid <<< 16) ||| (nBlocks <<< 8)) 0 (fr ||| (1 <<< 31))

/-- `_send_ffcs` -/
def ffcsReq (rm : Nat × Nat) : Req := nnReq ((nnFfcs <<< 24) ||| rm.2) rm.1 fr

/-- `_send_ffe` -/
def ffeReq (pid appId flags : Nat) : Req :=
  nnReq ((nnFfe <<< 24) ||| pid) ((appId <<< 24) ||| (flags <<< 18)) fr

/-- `_send_ffd`: `while pos < aplx_size: data = aplx_data[pos:pos + buf] ...`
(fuel = remaining length, enough when buf >= 1) -/
def ffdReqs (pid buf : Nat) : Nat → Nat → Nat → List Nat → List Req
  | 0, _, _, _ => []
  | fuel + 1, block, addr, data =>
    if data.length > 0 then
      let d := data.take buf
      let size := d.length / 4 - 1
      { x := 255, y := 255, p := 0, cmd := cmdFfd,
        arg1 := (nnForward <<< 24) ||| (nnRetry <<< 16) ||| pid,
        arg2 := (block <<< 16) ||| (size <<< 8), arg3 := addr, data := d } ::
        ffdReqs pid buf fuel (block + 1) (addr + d.length) (data.drop d.length)
    else []

/-- the requests of one fill before / after the base address is read -/
def fillHead (c : Ctl) (pid : Nat) (a : App) : List Req :=
  ffsReq pid ((a.image.length + c.buf - 1) / c.buf) :: (c.compress a.targets).map ffcsReq

def fillTail (c : Ctl) (pid base flags : Nat) (a : App) : List Req :=
  ffdReqs pid c.buf a.image.length 0 base a.image ++ [ffeReq pid c.appId flags]

/-- body of the `for (aplx, targets) in application_map` loop of `flood_fill_aplx` -/
def floodFillOne (mc : MCfg) (c : Ctl) (flags : Nat) (s : Sim) (a : App) : Sim :=
  let nn := nextNn s.nn
  let pid := nn * 2
  let s := { s with nn := nn }
  let s := sendAll mc s (fillHead c pid a)
  let o := readMem mc c.buf s 255 255 (svBase + offSdramSys) 4
  sendAll mc o.1 (fillTail c pid (leVal o.2) flags a)

/-- `flood_fill_aplx(application_map, app_id, wait)` -/
def floodFill (mc : MCfg) (c : Ctl) (wait : Bool) (s : Sim) (apps : List App) : Sim :=
  apps.foldl (floodFillOne mc c (if wait then flagWait else 0)) s

/-- `count_cores_in_state("wait", app_id)`; level 0 region `0x0000ffff` -/
def countReq (state appId : Nat) : Req :=
  { x := 255, y := 255, p := 0, cmd := cmdSignal, arg1 := diagCountType,
    arg2 := (0 <<< 26) ||| (1 <<< 22) ||| (diagCount <<< 20) ||| (state <<< 16) ||| (255 <<< 8) ||| appId,
    arg3 := 65535, data := [] }

/-- `send_signal("start", app_id)` -/
def startReq (appId : Nat) : Req :=
  { x := 255, y := 255, p := 0, cmd := cmdSignal, arg1 := sigStartType,
    arg2 := (sigStart <<< 16) ||| 65280 ||| appId, arg3 := 65535, data := [] }

/-- `read_vcpu_struct_field("cpu_state", x, y, p)`: read sv.vcpu_base of the chip, then one byte -/
def readCpuState (mc : MCfg) (buf : Nat) (s : Sim) (x y p : Nat) : Sim × Nat :=
  let o := readMem mc buf s x y (svBase + offVcpuBase) 4
  let o2 := readMem mc buf o.1 x y (leVal o.2 + vcpuSize * p + offCpuState) 1
  (o2.1, leVal o2.2)

/-- inner loop `for p in cores`: the cores whose state is anything but wait -/
def checkCores (mc : MCfg) (buf : Nat) (x y : Nat) : Sim → List Nat → Sim × List Nat
  | s, [] => (s, [])
  | s, p :: ps =>
    let o := readCpuState mc buf s x y p
    let r := checkCores mc buf x y o.1 ps
    (r.1, if o.2 ≠ stWait then p :: r.2 else r.2)

/-- `for (x, y), cores in targets` -/
def checkTargets (mc : MCfg) (buf : Nat) : Sim → List (Nat × Nat × List Nat) → Sim × List (Nat × Nat × List Nat)
  | s, [] => (s, [])
  | s, (x, y, cores) :: ts =>
    let o := checkCores mc buf x y s cores
    let r := checkTargets mc buf o.1 ts
    (r.1, if o.2.length > 0 then (x, y, o.2) :: r.2 else r.2)

/-- `for app_name, targets in unloaded` -/
def checkApps (mc : MCfg) (buf : Nat) : Sim → List App → Sim × List App
  | s, [] => (s, [])
  | s, a :: as =>
    let o := checkTargets mc buf s a.targets
    let r := checkApps mc buf o.1 as
    (r.1, if o.2.length > 0 then { a with targets := o.2 } :: r.2 else r.2)

def coreCount (apps : List App) : Nat :=
  (apps.map fun a => (a.targets.map fun t => t.2.2.length).sum).sum

/-- the `while unloaded != {} and tries <= n_tries` loop; `sent` records the map of every attempt -/
def loadLoop (mc : MCfg) (c : Ctl) (total : Nat) :
    Nat → Sim → Nat → List App → List (List App) → Sim × List App × List (List App)
  | 0, s, _, unl, sent => (s, unl, sent)
  | fuel + 1, s, tries, unl, sent =>
    if unl ≠ [] ∧ tries ≤ c.nTries then
      let s := floodFill mc c true s unl
      let sent := sent ++ [unl]
      let cnt := if c.useCount then some (s.send mc (countReq stWait c.appId)) else none
      match cnt with
      | some (s', .count n) =>
        if total = n then loadLoop mc c total fuel s' (tries + 1) [] sent
        else
          let o := checkApps mc c.buf s' unl
          loadLoop mc c total fuel o.1 (tries + 1) o.2 sent
      | some (s', _) =>
        let o := checkApps mc c.buf s' unl
        loadLoop mc c total fuel o.1 (tries + 1) o.2 sent
      | none =>
        let o := checkApps mc c.buf s unl
        loadLoop mc c total fuel o.1 (tries + 1) o.2 sent
    else (s, unl, sent)

inductive Outcome where
  | ok
  | loadingError (unloaded : List App)
  deriving Repr, DecidableEq

structure LoadResult where
  sim : Sim
  outcome : Outcome
  sent : List (List App)

/-- `load_application(application_map, app_id, n_tries, wait, use_count)` -/
def loadApplication (mc : MCfg) (c : Ctl) (s : Sim) (apps : List App) : LoadResult :=
  let r := loadLoop mc c (coreCount apps) (c.nTries + 1) s 0 apps []
  if r.2.1 ≠ [] then { sim := r.1, outcome := .loadingError r.2.1, sent := r.2.2 }
  else if c.wait then { sim := r.1, outcome := .ok, sent := r.2.2 }
  else { sim := (r.1.send mc (startReq c.appId)).1, outcome := .ok, sent := r.2.2 }

/-! ### specification predicates (the oracles; the theorems in Props/C09 are about these) -/

/-- core p of chip (x, y) is requested for binary `a` -/
def wants (a : App) (x y p : Nat) : Bool := a.targets.any fun t => t.1 == x && t.2.1 == y && t.2.2.contains p

def wantedBy (apps : List App) (x y p : Nat) : Option App := apps.find? fun a => wants a x y p

/-- data packets of a well-formed fill: consecutive slices of at most `buf` bytes, numbered
consecutively from `block`, stored at consecutive addresses from `addr` -/
def ffdPkts (pid buf : Nat) : Nat → Nat → Nat → List Nat → List Pkt
  | 0, _, _, _ => []
  | fuel + 1, block, addr, data =>
    if data.length > 0 then
      .ffd pid block ((data.take buf).length / 4 - 1) addr (data.take buf) ::
        ffdPkts pid buf fuel (block + 1) (addr + (data.take buf).length) (data.drop buf)
    else []

/-- the packets of one well-formed fill of `image` under id `pid` with selections `regs`, data at `base` -/
def fillPkts (buf pid base appId flags : Nat) (regs : List (Nat × Nat)) (image : List Nat) : List Pkt :=
  .ffs pid ((image.length + buf - 1) / buf) :: regs.map (fun rm => .ffcs rm.1 rm.2) ++
    ffdPkts pid buf image.length 0 base image ++ [.ffe pid appId flags]

/-- Well-formedness of a decoded fill (reads of the base address removed): announced block
count = blocks sent, numbered 0,1,2.., every block non-empty, a whole number of words, at most
`buf` bytes, consecutive addresses, concatenation = image, one id throughout (even, 2..252),
selections strictly increasing and between start and end. -/
def wellFormedFill (buf : Nat) (image : List Nat) (appId flags : Nat) : List Pkt → Bool
  | .ffs pid n :: rest =>
    let regs := rest.takeWhile fun p => match p with | .ffcs _ _ => true | _ => false
    let rest := rest.dropWhile fun p => match p with | .ffcs _ _ => true | _ => false
    let blocks := rest.takeWhile fun p => match p with | .ffd .. => true | _ => false
    let tail := rest.dropWhile fun p => match p with | .ffd .. => true | _ => false
    let regPairs := regs.filterMap fun p => match p with | .ffcs r m => some (r, m) | _ => none
    let datas := blocks.filterMap fun p => match p with | .ffd _ _ _ _ d => some d | _ => none
    let base := match blocks with | .ffd _ _ _ a _ :: _ => a | _ => 0
    decide (pid % 2 = 0 ∧ 2 ≤ pid ∧ pid ≤ 252) && decide (n = blocks.length) &&
    strictlyIncreasing regPairs &&
    (blocks.zipIdx.all fun (bi : Pkt × Nat) => match bi.1 with
      | .ffd pid' blk words addr d =>
        pid' == pid && blk == bi.2 && decide (0 < d.length) && decide (d.length ≤ buf) &&
        decide (d.length = 4 * (words + 1)) &&
        addr == base + ((datas.take bi.2).map List.length).sum
      | _ => false) &&
    decide (datas.flatten = image) &&
    decide (tail = [.ffe pid appId flags])
  | _ => false

/-- the fill the theorem `fill_wellformed` describes, rebuilt from the id, the core selections and
the base address found in the packets themselves: the packets must be exactly `fillPkts` of these -/
def isFillPkts (buf : Nat) (image : List Nat) (appId flags : Nat) (pkts : List Pkt) : Bool :=
  match pkts with
  | .ffs pid _ :: rest =>
    let regs := rest.filterMap fun p => match p with | .ffcs r m => some (r, m) | _ => none
    let base := (rest.filterMap fun p => match p with | .ffd _ _ _ a _ => some a | _ => none).headD 0
    decide (pkts = fillPkts buf pid base appId flags regs image) &&
      decide (pid % 2 = 0 ∧ 2 ≤ pid ∧ pid ≤ 252) && strictlyIncreasing regs
  | _ => false

/-- the contract of `compress_flood_fill_regions` relative to the machine's chips (C12) -/
def regionsOK (chips : List (Nat × Nat)) (targets : List (Nat × Nat × List Nat)) (regs : List (Nat × Nat)) : Bool :=
  strictlyIncreasing regs && (regs.all fun rm => decide (rm.2 < 262144)) &&
  (allCores chips).all fun c =>
    selectsCore regs c.1 c.2.1 c.2.2 == targets.any fun t => t.1 == c.1 && t.2.1 == c.2.1 && t.2.2.contains c.2.2

/-- post-condition of a normal return, for one core: a requested core holds its binary under
the app id, waiting or running as asked; any other core is as before the call - except that the
final start signal, which addresses the whole app id by design, also starts a core that was
already waiting under this app id (impossible under `PreClean`) -/
def postOkCore (apps : List App) (appId : Nat) (wait : Bool) (before after : Core) (x y p : Nat) : Bool :=
  match wantedBy apps x y p with
  | some a => after == ⟨if wait then stWait else stRun, appId, a.image⟩
  | none => after == before ||
      (!wait && matchesApp before stWait appId && after == { before with state := stRun })

/-- a requested core counts as loaded when it waits under the app id with its binary -/
def loaded (a : App) (appId : Nat) (c : Core) : Bool := c == ⟨stWait, appId, a.image⟩

/-- post-condition of SpiNNakerLoadingError(unl), for one core: it is named iff it is requested
and not loaded; cores that were not requested are as before -/
def postErrCore (apps unl : List App) (appId : Nat) (before after : Core) (x y p : Nat) : Bool :=
  match wantedBy apps x y p with
  | some a =>
    ((unl.any fun u => u.name == a.name && wants u x y p) == !loaded a appId after) &&
      (after == before || loaded a appId after)
  | none => after == before && !(unl.any fun u => wants u x y p)

/-- the map of a (re-)send for binary `a`: on the first attempt everything requested, afterwards
exactly the requested cores that are not loaded at that moment -/
def resendOK (chips : List (Nat × Nat)) (a : App) (sent : List (Nat × Nat × List Nat)) (first : Bool) (appId : Nat)
    (core : Nat → Nat → Nat → Core) : Bool :=
  (allCores chips).all fun c =>
    wants { a with targets := sent } c.1 c.2.1 c.2.2 ==
      (wants a c.1 c.2.1 c.2.2 && (first || !loaded a appId (core c.1 c.2.1 c.2.2)))

/-! ### which pre-states make a normal return unsound (the stale-waiter findings)

`load_application` decides "loaded" from the wait state alone (read-back) or from the number of
cores waiting under the app id (count shortcut).  Cores that were ALREADY waiting before the call
defeat both.  `staleMasks pre req missed` says exactly when, for the set `missed` of cores that
violate the post-condition of a normal return (`Props/C09Stale.lean`,
`load_sound_iff_preclean_needed`). -/

/-- stale waiters on other cores: cores of the machine that were not requested and wait under the
app id before the call -/
def staleOthers (chips : List (Nat × Nat)) (apps : List App) (appId : Nat) (pre : Nat → Nat → Nat → Core) : Nat :=
  (allCores chips).countP fun k =>
    (wantedBy apps k.1 k.2.1 k.2.2).isNone && matchesApp (pre k.1 k.2.1 k.2.2) stWait appId

/-- requested cores that before the call already are what a started load leaves: running the named
binary under the app id (only with `wait = False`; such a core satisfies the post-condition without
being loaded) -/
def alreadyRunning (chips : List (Nat × Nat)) (apps : List App) (appId : Nat) (wait : Bool)
    (pre : Nat → Nat → Nat → Core) : Nat :=
  (allCores chips).countP fun k =>
    match wantedBy apps k.1 k.2.1 k.2.2 with
    | some a => !wait && pre k.1 k.2.1 k.2.2 == ⟨stRun, appId, a.image⟩
    | none => false

/-- `readback-stale-waiter`: every missed core was itself in the wait state before the call (with
anything but its binary under the app id): the read-back takes it as loaded -/
def staleSelf (pre : Nat → Nat → Nat → Core) (missed : List (Nat × Nat × Nat)) : Bool :=
  missed.all fun k => (pre k.1 k.2.1 k.2.2).state == stWait

/-- `count-shortcut-stale-waiters`: count mode, and the stale waiters on other cores are exactly as
many as the missed cores that do not themselves wait under the app id (up to the requested cores
that were already running their binary): the count `core_count == count_cores_in_state("wait")`
comes out right although cores are missing -/
def staleCount (chips : List (Nat × Nat)) (apps : List App) (appId : Nat) (wait useCount : Bool)
    (pre : Nat → Nat → Nat → Core) (missed : List (Nat × Nat × Nat)) : Bool :=
  let nb := missed.countP fun k => !matchesApp (pre k.1 k.2.1 k.2.2) stWait appId
  useCount && decide (nb ≤ staleOthers chips apps appId pre) &&
    decide (staleOthers chips apps appId pre ≤ nb + alreadyRunning chips apps appId wait pre)

/-- **StaleMasks pre req missed**: `missed` is a non-empty set of requested cores none of which holds
its binary in the wait state under the app id before the call, and the stale waiters of the
pre-state hide them from the verification: `staleSelf` or `staleCount` -/
def staleMasks (chips : List (Nat × Nat)) (apps : List App) (appId : Nat) (wait useCount : Bool)
    (pre : Nat → Nat → Nat → Core) (missed : List (Nat × Nat × Nat)) : Bool :=
  !missed.isEmpty &&
  (missed.all fun k =>
    match wantedBy apps k.1 k.2.1 k.2.2 with
    | some a => !loaded a appId (pre k.1 k.2.1 k.2.2)
    | none => false) &&
  (staleSelf pre missed || staleCount chips apps appId wait useCount pre missed)

/-- the same for `SpiNNakerLoadingError`: `missed` is a non-empty set of requested cores that are
not named by the error although they are not loaded; each of them was in the wait state before the
call without holding its binary under the app id (the read-back dropped it from the map) -/
def staleHides (apps : List App) (appId : Nat) (pre : Nat → Nat → Nat → Core)
    (missed : List (Nat × Nat × Nat)) : Bool :=
  !missed.isEmpty &&
  (missed.all fun k =>
    match wantedBy apps k.1 k.2.1 k.2.2 with
    | some a => !loaded a appId (pre k.1 k.2.1 k.2.2)
    | none => false) &&
  staleSelf pre missed

/-- the machine reads the request as a signal (`send_signal`): SCP command `signal` with the
nearest-neighbour message type; the count request (`count_cores_in_state`) is not one -/
def isSignalPkt (r : Req) : Bool :=
  match decode r with
  | .signal _ _ _ => true
  | _ => false

/-- oracle on the requests of one `load_application` call (oldest first): if the call returned
normally with `wait = False` (`started`) the last request is `send_signal("start", app_id)` and no
other request is a signal packet; otherwise no request is a signal packet -/
def startOnceOK (appId : Nat) (started : Bool) (reqs : List Req) : Bool :=
  if started then reqs.getLast? == some (startReq appId) && reqs.dropLast.all (fun r => !isSignalPkt r)
  else reqs.all (fun r => !isSignalPkt r)

/-- the half of `resendOK` that needs no hypothesis about the pre-state: a (re-)send for binary `a` goes only
to cores requested for `a` and - after the first attempt - only to cores that do not hold their binary
at that moment ("re-send only to the cores still missing"); a core that is already loaded, e.g. by an
earlier call with the same binary and app id, is never sent the binary again -/
def resendOnlyOK (chips : List (Nat × Nat)) (a : App) (sent : List (Nat × Nat × List Nat)) (first : Bool) (appId : Nat)
    (core : Nat → Nat → Nat → Core) : Bool :=
  (allCores chips).all fun c =>
    !wants { a with targets := sent } c.1 c.2.1 c.2.2 ||
      (wants a c.1 c.2.1 c.2.2 && (first || !loaded a appId (core c.1 c.2.1 c.2.2)))

/-! ### line protocol -/
open Lean Rig.P

def reqOfJson (j : Json) : R Req := do
  pure { x := ← nat j "x", y := ← nat j "y", p := ← nat j "p", cmd := ← nat j "cmd",
         arg1 := ← nat j "arg1", arg2 := ← nat j "arg2", arg3 := ← nat j "arg3", data := ← nats j "data" }

def reqToJson (r : Req) : Json :=
  Json.mkObj [("x", jNat r.x), ("y", jNat r.y), ("p", jNat r.p), ("cmd", jNat r.cmd), ("arg1", jNat r.arg1),
              ("arg2", jNat r.arg2), ("arg3", jNat r.arg3), ("data", jNats r.data)]

def replyToJson : Reply → Json
  | .ok => Json.mkObj [("rc", "ok")]
  | .count n => Json.mkObj [("rc", "ok"), ("arg1", jNat n)]
  | .data b => Json.mkObj [("rc", "ok"), ("data", jNats b)]
  | .unmodelled => Json.mkObj [("rc", "unmodelled")]

def pktToJson : Pkt → Json
  | .ffs a b => jList [Json.str "ffs", jNat a, jNat b]
  | .ffcs a b => jList [Json.str "ffcs", jNat a, jNat b]
  | .ffd a b c d e => jList [Json.str "ffd", jNat a, jNat b, jNat c, jNat d, jNat e.length]
  | .ffe a b c => jList [Json.str "ffe", jNat a, jNat b, jNat c]
  | .count a b c => jList [Json.str "count", jNat a, jNat b, jNat c]
  | .signal a b c => jList [Json.str "signal", jNat a, jNat b, jNat c]
  | .read a b c d => jList [Json.str "read", jNat a, jNat b, jNat c, jNat d]
  | .other => jList [Json.str "other"]

def targetOfJson (j : Json) : R (Nat × Nat × List Nat) := do
  match ← asArr j with
  | [x, y, cs] => pure (← asNat x, ← asNat y, ← (← asArr cs).mapM asNat)
  | _ => .error "expected [x, y, cores]"

def targetsToJson (ts : List (Nat × Nat × List Nat)) : Json :=
  jList (ts.map fun t => jList [jNat t.1, jNat t.2.1, jNats t.2.2])

def appOfJson (j : Json) : R App := do
  pure { name := ← nat j "name", image := ← nats j "image", targets := ← (← arr j "targets").mapM targetOfJson }

def appToJson (a : App) : Json :=
  Json.mkObj [("name", jNat a.name), ("targets", targetsToJson a.targets)]

def pairOfJson (j : Json) : R (Nat × Nat) := asPair j asNat asNat

/-- `[x, y, p, state, app, image]` entries; every other core is idle, app 0, no image -/
def coresOfJson (l : List Json) : R (Nat → Nat → Nat → Core) := do
  let es ← l.mapM fun j => do
    match ← asArr j with
    | [x, y, p, st, ap, im] =>
      pure ((← asNat x, ← asNat y, ← asNat p), (⟨← asNat st, ← asNat ap, ← (← asArr im).mapM asNat⟩ : Core))
    | _ => .error "expected [x, y, p, state, app, image]"
  pure fun x y p => match es.find? (fun e => e.1 == (x, y, p)) with
    | some e => e.2
    | none => ⟨stIdle, 0, []⟩

def coresToJson (mc : MCfg) (core : Nat → Nat → Nat → Core) (full : Bool) : Json :=
  jList ((allCores mc.chips).filterMap fun c =>
    let k := core c.1 c.2.1 c.2.2
    if !full && k == ⟨stIdle, 0, []⟩ then none
    else some (jList [jNat c.1, jNat c.2.1, jNat c.2.2, jNat k.state, jNat k.app, jNats k.image]))

def mcfgOfJson (j : Json) : R MCfg := do
  let chips ← (← arr j "chips").mapM pairOfJson
  let missed ← (← arr j "missed").mapM fun l => do (← asArr l).mapM pairOfJson
  -- "vcpu_base": the value on every chip not listed in the optional "vcpu_bases": [[x, y, base], ...]
  let vb ← nat j "vcpu_base"
  let vbs ← opt j "vcpu_bases" fun l => do
    (← asArr l).mapM fun e => do
      match ← asArr e with
      | [x, y, b] => pure ((← asNat x, ← asNat y), ← asNat b)
      | _ => .error "expected [x, y, base]"
  let vbs : List ((Nat × Nat) × Nat) := vbs.getD []
  pure { chips := chips,
         missed := fun k x y => (missed.getD k []).contains (x, y),
         sdramSys := ← nat j "sdram_sys",
         vcpuBase := fun x y => match vbs.find? (fun e => e.1 == (x, y)) with
           | some e => e.2
           | none => vb }

def initState (j : Json) : R MState := do
  pure { core := ← coresOfJson (← arr j "cores"),
         rx := { idx := 0, pid := 0, nBlocks := 0, got := 0, next := 0, regs := [], data := [], ok := false },
         fills := 0 }

/-- `[[targets, pairs], ...]`: what `compress_flood_fill_regions` returned in the implementation's run -/
def tableOfJson (j : Json) : R (List (List (Nat × Nat × List Nat) × List (Nat × Nat))) := do
  (← asArr j).mapM fun e =>
    asPair e (fun t => do (← asArr t).mapM targetOfJson) (fun r => do (← asArr r).mapM pairOfJson)

def handle (op : String) (j : Json) : R Json := do
  match op with
  | "load" =>
    -- run the controller model against the machine specification
    let mc ← mcfgOfJson j
    let m ← initState j
    -- `compress`: the table of (targets, pairs) the implementation produced, or - without a table -
    -- C12's model of compress_flood_fill_regions (the controller of the `_c12` theorems)
    let table ← opt j "compress" tableOfJson
    let c : Ctl := { buf := ← nat j "buf", appId := ← nat j "app_id", nTries := ← nat j "n_tries",
                     wait := ← bool j "wait", useCount := ← bool j "use_count",
                     compress := match table with
                       | none => compressC12
                       | some table => fun t => match table.find? (fun e => e.1 == t) with
                         | some e => e.2
                         | none => [(4294967295, 0)] }
    let apps ← (← arr j "apps").mapM appOfJson
    -- `only_fill`: flood_fill_aplx(application_map, app_id, wait) called directly, no verification loop
    if (← opt j "only_fill" asBool).getD false then
      let s := floodFill mc c c.wait { m := m, nn := ← nat j "nn", trace := [] } apps
      return Json.mkObj [
        ("trace", jList (s.trace.reverse.map fun e => jPair (reqToJson e.1) (replyToJson e.2))),
        ("outcome", Json.str "ok"), ("sent", jList []), ("nn", jNat s.nn),
        ("cores", coresToJson mc s.m.core false)]
    let r := loadApplication mc c { m := m, nn := ← nat j "nn", trace := [] } apps
    pure (Json.mkObj [
      ("trace", jList (r.sim.trace.reverse.map fun e => jPair (reqToJson e.1) (replyToJson e.2))),
      ("outcome", match r.outcome with
        | .ok => Json.str "ok"
        | .loadingError u => Json.mkObj [("loading_error", jList (u.map appToJson))]),
      ("sent", jList (r.sent.map fun l => jList (l.map appToJson))),
      ("nn", jNat r.sim.nn),
      ("cores", coresToJson mc r.sim.m.core false)])
  | "machine" =>
    -- the machine specification alone: replies and final core states for a request sequence
    let mc ← mcfgOfJson j
    let m ← initState j
    let reqs ← (← arr j "reqs").mapM reqOfJson
    let (m', reps) := reqs.foldl (fun (acc : MState × List Json) r =>
      let o := step mc acc.1 r
      (o.1, replyToJson o.2 :: acc.2)) (m, [])
    pure (Json.mkObj [("replies", jList reps.reverse), ("cores", coresToJson mc m'.core false)])
  | "decode" =>
    pure (jList ((← (← arr j "reqs").mapM reqOfJson).map fun r => pktToJson (decode r)))
  | "wellformed" =>
    -- oracle: the implementation's own requests of one fill (base-address reads removed)
    let reqs ← (← arr j "reqs").mapM reqOfJson
    let wf := wellFormedFill (← nat j "buf") (← nats j "image") (← nat j "app_id") (← nat j "flags") (reqs.map decode)
    let same := isFillPkts (← nat j "buf") (← nats j "image") (← nat j "app_id") (← nat j "flags") (reqs.map decode)
    pure (Json.mkObj [("ok", Json.bool (wf && same)), ("wf", Json.bool wf), ("same", Json.bool same)])
  | "stale" =>
    -- classification of a post-condition violation: does the proved predicate hold on the case?
    let chips ← (← arr j "chips").mapM pairOfJson
    let pre ← coresOfJson (← arr j "before")
    let apps ← (← arr j "apps").mapM appOfJson
    let appId ← nat j "app_id"
    let wait ← bool j "wait"
    let useCount ← bool j "use_count"
    let missed ← (← arr j "missed").mapM fun c => do
      match ← asArr c with
      | [x, y, p] => pure (← asNat x, ← asNat y, ← asNat p)
      | _ => .error "expected [x, y, p]"
    pure (Json.mkObj [
      ("masks", Json.bool (staleMasks chips apps appId wait useCount pre missed)),
      ("hides", Json.bool (staleHides apps appId pre missed)),
      ("self", Json.bool (staleSelf pre missed)),
      ("count", Json.bool (staleCount chips apps appId wait useCount pre missed))])
  | "start_once" =>
    -- oracle: all requests of the implementation's call, oldest first
    pure (Json.mkObj [("ok", Json.bool (startOnceOK (← nat j "app_id") (← bool j "started")
      (← (← arr j "reqs").mapM reqOfJson)))])
  | "regions_ok" =>
    let chips ← (← arr j "chips").mapM pairOfJson
    pure (Json.mkObj [("ok", Json.bool (regionsOK chips (← (← arr j "targets").mapM targetOfJson)
      (← (← arr j "regions").mapM pairOfJson)))])
  | "resend_ok" =>
    let chips ← (← arr j "chips").mapM pairOfJson
    let a ← appOfJson (← field j "app")
    let sent ← (← arr j "sent").mapM targetOfJson
    let first ← bool j "first"
    let appId ← nat j "app_id"
    let cores ← coresOfJson (← arr j "cores")
    pure (Json.mkObj [("ok", Json.bool (resendOK chips a sent first appId cores)),
                      ("only", Json.bool (resendOnlyOK chips a sent first appId cores))])
  | "selects" =>
    pure (Json.bool (selects (← nat j "region") (← nat j "x") (← nat j "y")))
  | "post" =>
    -- oracle: post-condition on the machine's core states before / after the implementation's call
    let chips ← (← arr j "chips").mapM pairOfJson
    let before ← coresOfJson (← arr j "before")
    let after ← coresOfJson (← arr j "after")
    let apps ← (← arr j "apps").mapM appOfJson
    let appId ← nat j "app_id"
    let wait ← bool j "wait"
    let bad := match ← opt j "unloaded" (fun u => do (← asArr u).mapM appOfJson) with
      | none => (allCores chips).filter fun (c : Nat × Nat × Nat) =>
          !postOkCore apps appId wait (before c.1 c.2.1 c.2.2) (after c.1 c.2.1 c.2.2) c.1 c.2.1 c.2.2
      | some unl => (allCores chips).filter fun (c : Nat × Nat × Nat) =>
          !postErrCore apps unl appId (before c.1 c.2.1 c.2.2) (after c.1 c.2.1 c.2.2) c.1 c.2.1 c.2.2
    pure (Json.mkObj [("ok", Json.bool bad.isEmpty),
                      ("bad", jList (bad.map fun c => jNats [c.1, c.2.1, c.2.2]))])
  | "nn_ids" =>
    -- ids sent by `n` successive fills starting from `_nn_id = nn`
    let n ← nat j "n"
    let ids := (List.range n).foldl (fun (acc : Nat × List Nat) _ => (nextNn acc.1, 2 * nextNn acc.1 :: acc.2))
      (← nat j "nn", [])
    pure (jNats ids.2.reverse)
  | _ => .error s!"unknown op {op}"

end Rig.C09
