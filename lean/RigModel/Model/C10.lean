/-
C10 - routing entries installed in a chip's router are the entries given.

Part 1 (pure): `RoutingTree.traverse` (rig/place_and_route/routing_tree.py) and
`routing_tree_to_tables` (rig/routing_table/utils.py).

Part 2 (machine): `load_routing_table_entries`, `load_routing_tables`,
`get_routing_table_entries`, `clear_routing_table_entries`,
`unpack_routing_table_entry` (rig/machine_control/machine_controller.py) as
programs that talk to a machine, and the router specification of SC&MP/SARK
(`alloc_rtr`, router `load`, `free_rtr_by_app`, the router copy in memory).

Python structures: a `set` of routes is a list compared with `sameSet`
(order and multiplicity never observable); `route_sets` - a dict of
insertion-ordered dicts - is one insertion-ordered association list keyed by
(chip, key, mask): the entries of one chip, in order, are exactly that chip's
OrderedDict and the chips in order of first appearance are the outer dict.
-/
import RigModel.Model.Proto
import RigModel.Model.C07
import RigModel.Model.C04
import RigModel.Gen.Router
import RigModel.Gen.Scp

namespace Rig.C10
open Rig.Gen.Router

abbrev ChipXY := Nat × Nat

/-! ## Part 1 - trees to tables -/

mutual
/-- `RoutingTree(chip, children)` -/
inductive Tree where
  | node (chip : ChipXY) (kids : Kids)
/-- the `children` list: `(route, vertex)` or `(route, RoutingTree)`; route may be `None` -/
inductive Kids where
  | nil
  | leaf (r : Option Nat) (rest : Kids)
  | sub (r : Option Nat) (t : Tree) (rest : Kids)
end

mutual
def Tree.size : Tree → Nat
  | .node _ kids => 1 + kids.size
def Kids.size : Kids → Nat
  | .nil => 0
  | .leaf _ rest => rest.size
  | .sub _ t rest => t.size + rest.size
end

/-- `out_directions`: the child directions that are not `None` -/
def outDirs : Kids → List Nat
  | .nil => []
  | .leaf none rest => outDirs rest
  | .leaf (some r) rest => r :: outDirs rest
  | .sub none _ rest => outDirs rest
  | .sub (some r) _ rest => r :: outDirs rest

/-- the `(child_direction, child)` pairs appended to `to_visit`; `none` when the
`assert child_direction is not None` fails -/
def subs : Kids → Option (List (Option Nat × Tree))
  | .nil => some []
  | .leaf _ rest => subs rest
  | .sub none _ _ => none
  | .sub (some r) t rest => (subs rest).map (fun l => (some r, t) :: l)

/-- one item yielded by `traverse`: direction taken to reach the node, its chip, its out directions -/
structure Visit where
  dir : Option Nat
  chip : ChipXY
  outs : List Nat
  deriving Repr, DecidableEq

/-- the `while to_visit:` loop; the second component is `true` when the assertion fired
(the items yielded before it are still consumed by the caller) -/
def bfs : Nat → List (Option Nat × Tree) → List Visit × Bool
  | 0, _ => ([], false)
  | _ + 1, [] => ([], false)
  | fuel + 1, (d, .node chip kids) :: q =>
    match subs kids with
    | none => ([], true)
    | some s =>
      let r := bfs fuel (q ++ s)
      ({ dir := d, chip := chip, outs := outDirs kids } :: r.1, r.2)

def traverse (t : Tree) : List Visit × Bool := bfs t.size [(none, t)]

inductive Err where
  | multisource (key mask : Nat) (chip : ChipXY)
  | assertion
  | valueError
  deriving Repr, DecidableEq

/-- `InOutPair` stored under `route_sets[chip][(key, mask)]` -/
structure Slot where
  chip : ChipXY
  key : Nat
  mask : Nat
  ins : List (Option Nat)
  outs : List Nat
  deriving Repr, DecidableEq

def subset (a b : List Nat) : Bool := a.all (fun x => b.contains x)
/-- equality of Python sets -/
def sameSet (a b : List Nat) : Bool := subset a b && subset b a

/-- `direction.opposite` (`Routes.opposite` raises ValueError for a core route) -/
def inDir : Option Nat → Except Err (Option Nat)
  | none => .ok none
  | some r => if r < 6 then .ok (some ((r + 3) % 6)) else .error .valueError

def Slot.at (s : Slot) (chip : ChipXY) (key mask : Nat) : Bool :=
  s.chip == chip && s.key == key && s.mask == mask

def addIn (d : Option Nat) (ins : List (Option Nat)) : List (Option Nat) :=
  if ins.contains d then ins else ins ++ [d]

/-- body of the inner `for` loop of `routing_tree_to_tables` -/
def step (key mask : Nat) (st : List Slot) (v : Visit) : Except Err (List Slot) :=
  match inDir v.dir with
  | .error e => .error e
  | .ok d =>
    match st.find? (fun s => s.at v.chip key mask) with
    | some s =>
      if sameSet s.outs v.outs then
        .ok (st.map (fun s' => if s'.at v.chip key mask then { s' with ins := addIn d s'.ins } else s'))
      else .error (.multisource key mask v.chip)
    | none => .ok (st ++ [{ chip := v.chip, key := key, mask := mask, ins := [d], outs := v.outs }])

def stepAll (key mask : Nat) : List Slot → List Visit → Except Err (List Slot)
  | st, [] => .ok st
  | st, v :: vs =>
    match step key mask st v with
    | .error e => .error e
    | .ok st' => stepAll key mask st' vs

structure Net where
  key : Nat
  mask : Nat
  tree : Tree

def processNet (st : List Slot) (n : Net) : Except Err (List Slot) :=
  let tr := traverse n.tree
  match stepAll n.key n.mask st tr.1 with
  | .error e => .error e
  | .ok st' => if tr.2 then .error .assertion else .ok st'

def processNets : List Slot → List Net → Except Err (List Slot)
  | st, [] => .ok st
  | st, n :: ns =>
    match processNet st n with
    | .error e => .error e
    | .ok st' => processNets st' ns

/-- `RoutingTableEntry(route, key, mask, sources)` -/
structure Entry where
  route : List Nat
  key : Nat
  mask : Nat
  sources : List (Option Nat)
  deriving Repr, DecidableEq

def Slot.entry (s : Slot) : Entry := { route := s.outs, key := s.key, mask := s.mask, sources := s.ins }

abbrev Tables := List (ChipXY × List Entry)

/-- keys of a dict in order of first insertion -/
def firsts : List ChipXY → List ChipXY
  | [] => []
  | c :: cs => c :: (firsts cs).filter (fun x => x != c)

def chipsOf (st : List Slot) : List ChipXY := firsts (st.map (·.chip))

/-- the second loop: one list per chip, entries in insertion order -/
def tablesOf (st : List Slot) : Tables :=
  (chipsOf st).map (fun c => (c, (st.filter (fun s => s.chip == c)).map Slot.entry))

/-- `routing_tree_to_tables(routes, net_keys)`; nets in the iteration order of `routes` -/
def treeTables (nets : List Net) : Except Err Tables :=
  match processNets [] nets with
  | .error e => .error e
  | .ok st => .ok (tablesOf st)

/-! ### specification (written over the tree structure, without the traversal) -/

mutual
/-- every node of the tree with the direction it is entered by -/
def Tree.occs : Tree → Option Nat → List Visit
  | .node chip kids, d => { dir := d, chip := chip, outs := outDirs kids } :: kids.occs
def Kids.occs : Kids → List Visit
  | .nil => []
  | .leaf _ rest => rest.occs
  | .sub r t rest => t.occs r ++ rest.occs
end

/-- a tree node together with the key and mask of its net -/
structure Occ where
  key : Nat
  mask : Nat
  v : Visit
  deriving Repr, DecidableEq

def Net.occs (n : Net) : List Occ := (n.tree.occs none).map (fun v => { key := n.key, mask := n.mask, v := v })
def allOccs (nets : List Net) : List Occ := nets.flatMap Net.occs

/-- the link a packet that travelled in direction `d` arrives on (`None` at a root) -/
def srcOf (d : Option Nat) : Option Nat := d.map (fun r => (r + 3) % 6)

def Occ.at (o : Occ) (chip : ChipXY) (key mask : Nat) : Prop := o.v.chip = chip ∧ o.key = key ∧ o.mask = mask
instance (o : Occ) (c : ChipXY) (k m : Nat) : Decidable (o.at c k m) := by unfold Occ.at; infer_instance

/-- two nodes on one chip under one key and mask leave the chip by different sets of directions -/
def ConflictAt (os : List Occ) (chip : ChipXY) (key mask : Nat) : Prop :=
  ∃ a ∈ os, ∃ b ∈ os, a.at chip key mask ∧ b.at chip key mask ∧ sameSet a.v.outs b.v.outs = false
def Conflict (os : List Occ) : Prop :=
  ∃ a ∈ os, ∃ b ∈ os, a.v.chip = b.v.chip ∧ a.key = b.key ∧ a.mask = b.mask ∧ sameSet a.v.outs b.v.outs = false
instance (os : List Occ) (c : ChipXY) (k m : Nat) : Decidable (ConflictAt os c k m) := by
  unfold ConflictAt; infer_instance
instance (os : List Occ) : Decidable (Conflict os) := by unfold Conflict; infer_instance

/-- the entry `e` of chip `c` is exact: some node is there, the route is the union of the nodes'
out directions and the sources are exactly the links the nodes are entered by -/
def EntryExact (os : List Occ) (c : ChipXY) (e : Entry) : Prop :=
  (∃ o ∈ os, o.at c e.key e.mask) ∧
  (∀ r ∈ e.route, ∃ o ∈ os, o.at c e.key e.mask ∧ r ∈ o.v.outs) ∧
  (∀ o ∈ os, o.at c e.key e.mask → ∀ r ∈ o.v.outs, r ∈ e.route) ∧
  (∀ d ∈ e.sources, ∃ o ∈ os, o.at c e.key e.mask ∧ srcOf o.v.dir = d) ∧
  (∀ o ∈ os, o.at c e.key e.mask → srcOf o.v.dir ∈ e.sources)
instance (os : List Occ) (c : ChipXY) (e : Entry) : Decidable (EntryExact os c e) := by
  unfold EntryExact; infer_instance

/-- the tables are exactly what the trees demand -/
def TablesExact (os : List Occ) (T : Tables) : Prop :=
  (T.map (·.1)).Nodup ∧
  (∀ o ∈ os, ∃ ct ∈ T, ct.1 = o.v.chip) ∧
  (∀ ct ∈ T,
    (ct.2.map (fun e => (e.key, e.mask))).Nodup ∧
    ct.2 ≠ [] ∧
    (∀ e ∈ ct.2, EntryExact os ct.1 e) ∧
    (∀ o ∈ os, o.v.chip = ct.1 → ∃ e ∈ ct.2, e.key = o.key ∧ e.mask = o.mask))
instance (os : List Occ) (T : Tables) : Decidable (TablesExact os T) := by
  unfold TablesExact; infer_instance

/-- the property, as a predicate on any result -/
def TablesSpec (nets : List Net) : Except Err Tables → Prop
  | .ok T => ¬ Conflict (allOccs nets) ∧ TablesExact (allOccs nets) T
  | .error (.multisource k m c) => ConflictAt (allOccs nets) c k m
  | .error _ => False
instance (nets : List Net) (r : Except Err Tables) : Decidable (TablesSpec nets r) := by
  unfold TablesSpec; split <;> infer_instance

mutual
/-- documented domain: a subtree is reached by a link direction (0..5), never `None` or a core -/
def Tree.WF : Tree → Prop
  | .node _ kids => kids.WF
def Kids.WF : Kids → Prop
  | .nil => True
  | .leaf _ rest => rest.WF
  | .sub r t rest => (∃ l, r = some l ∧ l < 6) ∧ t.WF ∧ rest.WF
end

/-! ## Part 2 - loading and reading back -/

def le16 (n : Nat) : List Nat := [n % 256, n / 256 % 256]
def le32 (n : Nat) : List Nat := [n % 256, n / 256 % 256, n / 65536 % 256, n / 16777216 % 256]
def word32 (a b c d : Nat) : Nat := a + 256 * b + 65536 * c + 16777216 * d

/-- `for r in entry.route: route |= 1 << r` -/
def routeWord (rs : List Nat) : Nat := rs.foldl (fun w r => w ||| (1 <<< r)) 0

inductive MErr where
  | routerError (count x y : Nat)
  | structError
  deriving Repr, DecidableEq

/-- `struct.pack_into("<2H 3I", data, i*16, i, 0, route, key, mask)` -/
def packEntry (i : Nat) (e : Entry) : Except MErr (List Nat) :=
  if i < 65536 ∧ routeWord e.route < 4294967296 ∧ e.key < 4294967296 ∧ e.mask < 4294967296 then
    .ok (le16 i ++ le16 0 ++ le32 (routeWord e.route) ++ le32 e.key ++ le32 e.mask)
  else .error .structError

def packAll : Nat → List Entry → Except MErr (List Nat)
  | _, [] => .ok []
  | i, e :: es =>
    match packEntry i e with
    | .error x => .error x
    | .ok b =>
      match packAll (i + 1) es with
      | .error x => .error x
      | .ok bs => .ok (b ++ bs)

/-- what `unpack_routing_table_entry` returns for a used row -/
structure Dec where
  routes : List Nat
  key : Nat
  mask : Nat
  app : Nat
  core : Nat
  /-- `RoutingTableEntry(routes, key, mask)` is built with the default `sources={None}` (unknown):
  the router stores no sources -/
  sources : List (Option Nat) := [none]
  deriving Repr, DecidableEq

/-- `unpack_routing_table_entry`; outer `none` = struct.error (not 16 bytes) -/
def unpackEntry : List Nat → Option (Option Dec)
  | [_, _, f0, f1, r0, r1, r2, r3, k0, k1, k2, k3, m0, m1, m2, m3] =>
    let free := f0 + 256 * f1
    let route := word32 r0 r1 r2 r3
    if route &&& 0xff000000 = 0xff000000 then some none
    else some (some {
      routes := routesValues.filter (fun r => (route >>> r) &&& 1 = 1),
      key := word32 k0 k1 k2 k3, mask := word32 m0 m1 m2 m3,
      app := free &&& 0xff, core := (free >>> 8) &&& 0x0f })
  | _ => none

/-! ### the machine: router specification -/

/-- contents of a used router row -/
structure Ent where
  route : Nat
  key : Nat
  mask : Nat
  app : Nat
  core : Nat
  deriving Repr, DecidableEq

/-- one of the 1024 router rows: `owner` = application the row is allocated to (`none` = on the
free list), `ent` = what the row matches (`none` = unused); `next`/`free` are the link fields of
the router copy, never interpreted here -/
structure Row where
  next : Nat
  free : Nat
  owner : Option Nat
  ent : Option Ent
  deriving Repr, DecidableEq

instance : Inhabited Row := ⟨{ next := 0, free := 0, owner := none, ent := none }⟩

structure Chip where
  mem : Rig.C07.Mem
  rows : Nat → Row
  copyBase : Nat          -- address of the router copy (`sv.rtr_copy` holds it)

/-- the 16-byte record of a row in the router copy -/
def rowRecord (r : Row) : List Nat :=
  match r.ent with
  | some e => le16 r.next ++ le16 (e.app + 256 * e.core) ++ le32 e.route ++ le32 e.key ++ le32 e.mask
  | none => le16 r.next ++ le16 r.free ++ le32 0xff000000 ++ le32 0xffffffff ++ le32 0

/-- what a read of address `a` returns: the router copy is a view of the rows -/
def Chip.byte (s : Chip) (a : Nat) : Nat :=
  if s.copyBase ≤ a ∧ a < s.copyBase + 16 * rtrEntries then
    (rowRecord (s.rows ((a - s.copyBase) / 16))).getD ((a - s.copyBase) % 16) 0
  else s.mem a

structure Req where
  x : Nat
  y : Nat
  p : Nat
  cmd : Nat
  arg1 : Nat
  arg2 : Nat
  arg3 : Nat
  data : List Nat
  deriving Repr, DecidableEq

structure Reply where
  arg1 : Nat
  data : List Nat
  deriving Repr, DecidableEq

/-- `alloc_rtr` may answer `b` for `n` rows: 0 (failure) or the first row of a block of free rows -/
def BlockFree (rows : Nat → Row) (b n : Nat) : Prop :=
  1 ≤ b ∧ b + n ≤ rtrEntries ∧ ∀ i, i < n → (rows (b + i)).owner = none
instance (rows : Nat → Row) (b n : Nat) : Decidable (BlockFree rows b n) := by
  unfold BlockFree; infer_instance

/-- the allocation policy of the machine (which block, or failure): rows, app id, count ↦ base -/
abbrev Pol := (Nat → Row) → Nat → Nat → Nat

def PolValid (pol : Pol) : Prop := ∀ rows app n, pol rows app n = 0 ∨ BlockFree rows (pol rows app n) n

def claim (rows : Nat → Row) (b n app : Nat) : Nat → Row :=
  fun i => if b ≤ i ∧ i < b + n then { rows i with owner := some app } else rows i

/-- record at `a` of a load buffer: (row it goes to, contents) - the row is `base + next` -/
def decodeRec (byte : Nat → Nat) (base app a : Nat) : Nat × Ent :=
  (base + (byte a + 256 * byte (a + 1)),
   { route := word32 (byte (a + 4)) (byte (a + 5)) (byte (a + 6)) (byte (a + 7)),
     key := word32 (byte (a + 8)) (byte (a + 9)) (byte (a + 10)) (byte (a + 11)),
     mask := word32 (byte (a + 12)) (byte (a + 13)) (byte (a + 14)) (byte (a + 15)),
     app := app, core := 0 })

/-- the `count` records of the buffer at `addr`, in order -/
def loadRecs (byte : Nat → Nat) (addr base app count : Nat) : List (Nat × Ent) :=
  (List.range count).map (fun k => decodeRec byte base app (addr + 16 * k))

/-- router `load`: the records are written one after the other -/
def applyRecs (rows : Nat → Row) : List (Nat × Ent) → (Nat → Row)
  | [] => rows
  | (idx, e) :: rest => applyRecs (fun i => if i = idx then { rows i with ent := some e } else rows i) rest

def freeByApp (rows : Nat → Row) (app : Nat) : Nat → Row :=
  fun i => if (rows i).owner = some app then { rows i with owner := none, ent := none } else rows i

open Rig.Gen.Scp in
/-- one SCP command executed by a chip -/
def stepChip (pol : Pol) (s : Chip) (r : Req) : Chip × Reply :=
  if r.cmd = cmdAllocFree then
    let op := r.arg1 % 256
    let app := r.arg1 / 256 % 256
    if op = opAllocRtr then
      let b := pol s.rows app r.arg2
      if b = 0 then (s, { arg1 := 0, data := [] })
      else ({ s with rows := claim s.rows b r.arg2 app }, { arg1 := b, data := [] })
    else if op = opFreeRtrByApp then
      ({ s with rows := freeByApp s.rows app }, { arg1 := 0, data := [] })
    else (s, { arg1 := 0, data := [] })
  else if r.cmd = cmdWrite then
    ({ s with mem := Rig.C07.writeMem s.mem r.arg1 r.data }, { arg1 := 0, data := [] })
  else if r.cmd = cmdRead then
    (s, { arg1 := 0, data := (List.range r.arg2).map (fun i => s.byte (r.arg1 + i)) })
  else if r.cmd = cmdRouter ∧ r.arg1 % 256 = opRouterLoad then
    ({ s with rows := applyRecs s.rows (loadRecs s.byte r.arg2 r.arg3 (r.arg1 / 256 % 256) (r.arg1 / 65536)) },
     { arg1 := 0, data := [] })
  else (s, { arg1 := 0, data := [] })

/-! ### the controller: programs that send commands and continue with the reply -/

inductive Prog (α : Type) where
  | ret (a : α)
  | fail (e : MErr)
  | send (r : Req) (k : Reply → Prog α)

/-- run a program against one chip; returns final chip, outcome, commands sent -/
def run (pol : Pol) : Prog α → Chip → Chip × Except MErr α × List Req
  | .ret a, s => (s, .ok a, [])
  | .fail e, s => (s, .error e, [])
  | .send r k, s =>
    let sr := stepChip pol s r
    let out := run pol (k sr.2) sr.1
    (out.1, out.2.1, r :: out.2.2)

/-! ### the machine: a map from chip coordinates to chips -/

/-- a SpiNNaker machine as the controller sees it: every coordinate has a chip -/
abbrev Machine := ChipXY → Chip

def Machine.set (m : Machine) (c : ChipXY) (s : Chip) : Machine := fun c' => if c' = c then s else m c'

/-- run a program against a machine: every command is executed by the chip it addresses
(`pol c` = allocation policy of chip `c`); returns final machine, outcome, commands sent -/
def runM (pol : ChipXY → Pol) : Prog α → Machine → Machine × Except MErr α × List Req
  | .ret a, m => (m, .ok a, [])
  | .fail e, m => (m, .error e, [])
  | .send r k, m =>
    let sr := stepChip (pol (r.x, r.y)) (m (r.x, r.y)) r
    let out := runM pol (k sr.2) (m.set (r.x, r.y) sr.1)
    (out.1, out.2.1, r :: out.2.2)

open Rig.Gen.Scp in
def readReq (x y p : Nat) (c : Rig.C07.Chunk) : Req :=
  { x := x, y := y, p := p, cmd := cmdRead, arg1 := c.addr, arg2 := c.size, arg3 := c.dt, data := [] }
open Rig.Gen.Scp in
def writeReq (x y p : Nat) (c : Rig.C07.Chunk) : Req :=
  { x := x, y := y, p := p, cmd := cmdWrite, arg1 := c.addr, arg2 := c.size, arg3 := c.dt, data := c.data }

/-- `MachineController.read`: the read commands in order, replies concatenated -/
def readProg (x y p : Nat) : List Rig.C07.Chunk → List Nat → (List Nat → Prog α) → Prog α
  | [], acc, k => k acc
  | c :: cs, acc, k => .send (readReq x y p c) (fun rep => readProg x y p cs (acc ++ rep.data) k)

/-- `MachineController.write` -/
def writeProg (x y p : Nat) : List Rig.C07.Chunk → Prog α → Prog α
  | [], k => k
  | c :: cs, k => .send (writeReq x y p c) (fun _ => writeProg x y p cs k)

/-- `read_struct_field("sv", field, x, y)` for a 32-bit field at `off` -/
def readSvWord (scpLen x y off : Nat) (k : Nat → Prog α) : Prog α :=
  readProg x y 0 (Rig.C07.read scpLen (svBase + off) 4) [] (fun d =>
    match d with
    | [a, b, c, e] => k (word32 a b c e)
    | _ => .fail .structError)

def allocReq (x y app count : Nat) : Req :=
  { x := x, y := y, p := 0, cmd := cmdAllocFree, arg1 := (app <<< 8) ||| opAllocRtr, arg2 := count, arg3 := 0, data := [] }
def loadReq (x y app count buf base : Nat) : Req :=
  { x := x, y := y, p := 0, cmd := cmdRouter, arg1 := (count <<< 16) ||| (app <<< 8) ||| opRouterLoad,
    arg2 := buf, arg3 := base, data := [] }
def clearReq (x y app : Nat) : Req :=
  { x := x, y := y, p := 0, cmd := cmdAllocFree, arg1 := (app <<< 8) ||| opFreeRtrByApp, arg2 := 1, arg3 := 0, data := [] }

/-- `load_routing_table_entries(entries, x, y, app_id)`; `scpLen` = the machine's `scp_data_length` -/
def loadEntries (scpLen : Nat) (entries : List Entry) (x y app : Nat) (k : Prog α) : Prog α :=
  .send (allocReq x y app entries.length) (fun rv =>
    if rv.arg1 = 0 then .fail (.routerError entries.length x y)
    else readSvWord scpLen x y svSdramSys (fun buf =>
      match packAll 0 entries with
      | .error e => .fail e
      | .ok data =>
        writeProg x y 0 (Rig.C07.write scpLen buf data)
          (.send (loadReq x y app entries.length buf rv.arg1) (fun _ => k))))

/-- the chip after it executed an allocation request whose reply never reached the controller
(SCP then retransmits the request and the chip executes it again) -/
def afterLostAlloc (pol : Pol) (s : Chip) (x y app n : Nat) : Chip := (stepChip pol s (allocReq x y app n)).1

/-- `load_routing_tables(routing_tables, app_id)`, tables in the dict's iteration order -/
def loadTables (scpLen app : Nat) : List (ChipXY × List Entry) → Prog Unit
  | [] => .ret ()
  | (c, es) :: rest => loadEntries scpLen es c.1 c.2 app (loadTables scpLen app rest)

/-- `while len(rtr_data) > 0: entry, rtr_data = rtr_data[:16], rtr_data[16:]; unpack(entry)` -/
def decodeAll : Nat → List Nat → Except MErr (List (Option Dec))
  | 0, _ => .ok []
  | fuel + 1, data =>
    if data.length > 0 then
      match unpackEntry (data.take 16) with
      | none => .error .structError
      | some d =>
        match decodeAll fuel (data.drop 16) with
        | .error e => .error e
        | .ok ds => .ok (d :: ds)
    else .ok []

/-- `get_routing_table_entries(x, y)` -/
def getEntries (scpLen x y : Nat) : Prog (List (Option Dec)) :=
  readSvWord scpLen x y svRtrCopy (fun addr =>
    readProg x y 0 (Rig.C07.read scpLen addr (rtrEntries * 16)) [] (fun data =>
      match decodeAll data.length data with
      | .error e => .fail e
      | .ok t => .ret t))

/-- `clear_routing_table_entries(x, y, app_id)` -/
def clearEntries (x y app : Nat) : Prog Unit := .send (clearReq x y app) (fun _ => .ret ())

/-! ### specification of loading and reading back (on any observed router states) -/

/-- row `r` holds entry `e` for `app`: same key, mask and exactly the given route bits -/
def RowHolds (r : Row) (e : Entry) (app : Nat) : Prop :=
  match r.ent with
  | none => False
  | some x => x.key = e.key ∧ x.mask = e.mask ∧ x.app = app ∧
    ∀ b, b < 32 → (x.route.testBit b = true ↔ b ∈ e.route)
instance (r : Row) (e : Entry) (app : Nat) : Decidable (RowHolds r e app) := by
  unfold RowHolds; split <;> infer_instance

/-- outcome of `load_routing_table_entries` as seen from outside: rows before, rows after, the
base the machine answered, whether the call returned normally or raised the router error, and
whether any write or load command was sent -/
def LoadSpec (rows0 rowsF : Nat → Row) (entries : List Entry) (app base : Nat)
    (raised : Bool) (wroteOrLoaded : Bool) : Prop :=
  if base = 0 then
    raised = true ∧ wroteOrLoaded = false ∧ ∀ j, j < rtrEntries → rowsF j = rows0 j
  else
    raised = false ∧
    (∀ i, i < entries.length → ∃ e, entries[i]? = some e ∧ RowHolds (rowsF (base + i)) e app ∧
        (rowsF (base + i)).owner = some app) ∧
    (∀ j, j < rtrEntries → ¬ (base ≤ j ∧ j < base + entries.length) → rowsF j = rows0 j)
instance (rows0 rowsF : Nat → Row) (entries : List Entry) (app base : Nat) (a b : Bool) :
    Decidable (LoadSpec rows0 rowsF entries app base a b) := by
  unfold LoadSpec; split <;> infer_instance

/-- `d` is what reading back row `r` must give -/
def ReadsAs (r : Row) (d : Option Dec) : Prop :=
  match r.ent, d with
  | none, none => True
  | some x, some d => d.key = x.key ∧ d.mask = x.mask ∧ d.app = x.app ∧ d.core = x.core ∧
      (∀ b, b < 24 → (b ∈ d.routes ↔ x.route.testBit b = true)) ∧ (∀ b ∈ d.routes, b < 24) ∧
      d.sources = [none]
  | _, _ => False
instance (r : Row) (d : Option Dec) : Decidable (ReadsAs r d) := by
  unfold ReadsAs; split <;> infer_instance

def ReadbackSpec (rows : Nat → Row) (t : List (Option Dec)) : Prop :=
  t.length = rtrEntries ∧ ∀ j, j < rtrEntries → ∃ d, t[j]? = some d ∧ ReadsAs (rows j) d
instance (rows : Nat → Row) (t : List (Option Dec)) : Decidable (ReadbackSpec rows t) := by
  unfold ReadbackSpec; infer_instance

/-- outcome of `load_routing_tables(tables, app_id)` as seen from outside, tables in the dict's
iteration order: `base c` = what chip `c` answered to its `alloc_rtr`, `res` = the exception raised
(`none` = returned normally).  Chips are processed in order;
each one whose allocation succeeds satisfies `LoadSpec`; at the first chip that answers 0 the call
raises the router error naming that chip (count, x, y) and the routers of that chip and of all later
chips are untouched; if no chip answers 0 the call returns normally. -/
def errOf : Except MErr α → Option MErr
  | .ok _ => none
  | .error e => some e

def TablesLoadSpec (rows0 rowsF : ChipXY → Nat → Row) (app : Nat) (base : ChipXY → Nat)
    (res : Option MErr) : Tables → Prop
  | [] => res = none
  | (c, es) :: rest =>
    if base c = 0 then
      res = some (.routerError es.length c.1 c.2) ∧
      ∀ ct ∈ (c, es) :: rest, ∀ j, j < rtrEntries → rowsF ct.1 j = rows0 ct.1 j
    else
      LoadSpec (rows0 c) (rowsF c) es app (base c) false true ∧
      TablesLoadSpec rows0 rowsF app base res rest

def TablesLoadSpec.dec (rows0 rowsF : ChipXY → Nat → Row) (app : Nat) (base : ChipXY → Nat)
    (res : Option MErr) : (T : Tables) → Decidable (TablesLoadSpec rows0 rowsF app base res T)
  | [] => by unfold TablesLoadSpec; infer_instance
  | (c, es) :: rest => by
    unfold TablesLoadSpec
    have := TablesLoadSpec.dec rows0 rowsF app base res rest
    split <;> infer_instance
instance (rows0 rowsF : ChipXY → Nat → Row) (app : Nat) (base : ChipXY → Nat)
    (res : Option MErr) (T : Tables) : Decidable (TablesLoadSpec rows0 rowsF app base res T) :=
  TablesLoadSpec.dec rows0 rowsF app base res T

/-- a row as the router copy can represent it (what the theorems assume of the initial state) -/
def Row.Ok (r : Row) : Prop :=
  match r.ent with
  | none => True
  | some x => x.route < 16777216 ∧ x.key < 4294967296 ∧ x.mask < 4294967296 ∧ x.app < 256 ∧ x.core < 16

/-! ### what the router does with a loaded table (used by the cross-model theorems) -/

/-- a packet key matches an entry when its bits under the mask equal the entry's key -/
def Entry.matches (e : Entry) (k : Nat) : Bool := k &&& e.mask == e.key

/-- first-match lookup in table order (the router takes the lowest matching row) -/
def lookup (T : List Entry) (k : Nat) : Option Entry := T.find? (fun e => e.matches k)

/-- a packet key matches a used router row -/
def Ent.matches (x : Ent) (k : Nat) : Bool := k &&& x.mask == x.key

def rowHit (rows : Nat → Row) (k j : Nat) : Option Ent :=
  match (rows j).ent with
  | some x => if x.matches k then some x else none
  | none => none

/-- the router's decision for packet key `k`: the matching used row of lowest index -/
def routerLookup (rows : Nat → Row) (k : Nat) : Option Ent :=
  (List.range rtrEntries).findSome? (rowHit rows k)

/-! ### conversion to and from C04's entries (`BitVec 32` key/mask, route and sources as bit sets) -/

/-- bit of a source in C04's `sources` word: a link/route `l` is bit `l`, `None` is bit 24 -/
def srcBit : Option Nat → Nat
  | none => 24
  | some l => l

def srcWord (ss : List (Option Nat)) : Nat := routeWord (ss.map srcBit)

/-- C10 entry -> C04 entry -/
def toC04 (e : Entry) : Rig.C04.Entry :=
  { route := routeWord e.route, key := BitVec.ofNat 32 e.key, mask := BitVec.ofNat 32 e.mask,
    sources := srcWord e.sources }

/-- the set bits of `w` below `n`, ascending -/
def bitsOf (w n : Nat) : List Nat := (List.range n).filter (fun b => w.testBit b)

def srcOfBit (b : Nat) : Option Nat := if b = 24 then none else some b

/-- C04 entry -> C10 entry -/
def ofC04 (e : Rig.C04.Entry) : Entry :=
  { route := bitsOf e.route 24, key := e.key.toNat, mask := e.mask.toNat,
    sources := (bitsOf e.sources 25).map srcOfBit }

/-! ## line protocol -/
open Lean Rig.P

def chipOfNats (c : List Nat) : R ChipXY :=
  match c with
  | [x, y] => pure (x, y)
  | _ => .error "chip"

/-- leaf children `[[route|null, null], ...]` in front of `rest` -/
def leafKids (ks : List Json) (rest : Kids) : R Kids :=
  ks.foldrM (fun kj acc => do
    match ← asArr kj with
    | [rj, _] => pure (Kids.leaf (← asOpt rj asNat) acc)
    | _ => .error "kid") rest

/-- flat form of a tree that is one long chain (nesting thousands of JSON levels is beyond the harness'
JSON encoder): `{"chain": [{"c": [x, y], "k": leaf children, "r": route to the next node}, ...]}`; the
last node has no "r" -/
def chainOfJson (items : List Json) : R Tree := do
  let rec go : List Json → R (Option Tree)
    | [] => pure none
    | it :: rest => do
      let below ← go rest
      let chip ← chipOfNats (← nats it "c")
      let r ← match it.getObjVal? "r" with
        | .ok rj => asOpt rj asNat
        | .error _ => pure none
      let kids ← leafKids (← arr it "k") (match below with
        | some t => Kids.sub r t .nil
        | none => .nil)
      pure (some (.node chip kids))
  match ← go items with
  | some t => pure t
  | none => .error "empty chain"

partial def treeOfJson (j : Json) : R Tree := do
  if let .ok (.arr items) := j.getObjVal? "chain" then
    return ← chainOfJson items.toList
  let c ← nats j "c"
  let chip ← match c with
    | [x, y] => pure (x, y)
    | _ => .error "chip"
  let ks ← arr j "k"
  let rec build : List Json → R Kids
    | [] => pure .nil
    | kj :: rest => do
      let pr ← asArr kj
      match pr with
      | [rj, tj] =>
        let r ← asOpt rj asNat
        let restK ← build rest
        match tj with
        | .null => pure (.leaf r restK)
        | _ => pure (.sub r (← treeOfJson tj) restK)
      | _ => .error "kid"
  pure (.node chip (← build ks))

def netsOfJson (j : Json) : R (List Net) := do
  (← arr j "nets").mapM (fun n => do
    pure { key := ← nat n "key", mask := ← nat n "mask", tree := ← treeOfJson (← field n "tree") })

def srcCode : Option Nat → Int
  | none => -1
  | some r => r

def sortNats (l : List Nat) : List Nat := (l.mergeSort (· ≤ ·)).eraseDups
def sortInts (l : List Int) : List Int := (l.mergeSort (· ≤ ·)).eraseDups

def entryToJson (e : Entry) : Json :=
  jList [jNats (sortNats e.route), jNat e.key, jNat e.mask, jInts (sortInts (e.sources.map srcCode))]

def chipToJson (c : ChipXY) : Json := jNats [c.1, c.2]

def tablesToJson (t : Tables) : Json :=
  jList (t.map (fun ct => jList [chipToJson ct.1, jList (ct.2.map entryToJson)]))

def errToJson : Err → Json
  | .multisource k m c => Json.mkObj [("err", jList [Json.str "multisource", jNat k, jNat m, chipToJson c])]
  | .assertion => Json.mkObj [("err", jList [Json.str "assertion"])]
  | .valueError => Json.mkObj [("err", jList [Json.str "valueError"])]

def srcOfCode (i : Int) : Option Nat := if i < 0 then none else some i.toNat

def entryOfJson (j : Json) : R Entry := do
  match ← asArr j with
  | [r, k, m, s] =>
    pure { route := ← (← asArr r).mapM asNat, key := ← asNat k, mask := ← asNat m,
           sources := (← (← asArr s).mapM asInt).map srcOfCode }
  | [r, k, m] =>
    pure { route := ← (← asArr r).mapM asNat, key := ← asNat k, mask := ← asNat m, sources := [] }
  | _ => .error "entry"

def chipOfJson (j : Json) : R ChipXY := do
  match ← (← asArr j).mapM asNat with
  | [x, y] => pure (x, y)
  | _ => .error "chip"

def tablesOfJson (j : Json) : R Tables := do
  (← asArr j).mapM (fun ct => do
    match ← asArr ct with
    | [c, es] => pure (← chipOfJson c, ← (← asArr es).mapM entryOfJson)
    | _ => .error "table")

def resultOfJson (j : Json) : R (Except Err Tables) := do
  match j.getObjVal? "ok" with
  | .ok t => pure (.ok (← tablesOfJson t))
  | .error _ =>
    match ← arr j "err" with
    | [_, k, m, c] => pure (.error (.multisource (← asNat k) (← asNat m) (← chipOfJson c)))
    | _ => pure (.error .assertion)

/-- rows: default row everywhere except the listed `[i, next, free, owner|null, ent|null]`,
`ent = [route, key, mask, app, core]` -/
def rowsOfJson (j : Json) : R (Nat → Row) := do
  let mut a : Array Row := Array.replicate rtrEntries default
  for rj in ← asArr j do
    match ← asArr rj with
    | [i, nx, fr, ow, en] =>
      let ent ← asOpt en (fun e => do
        match ← (← asArr e).mapM asNat with
        | [r, k, m, ap, co] => pure ({ route := r, key := k, mask := m, app := ap, core := co } : Ent)
        | _ => .error "ent")
      a := a.setIfInBounds (← asNat i) { next := ← asNat nx, free := ← asNat fr, owner := ← asOpt ow asNat, ent := ent }
    | _ => .error "row"
  pure (fun i => a.getD i default)

def rowToJson (i : Nat) (r : Row) : Json :=
  jList [jNat i, jNat r.next, jNat r.free, jOpt jNat r.owner,
         jOpt (fun e : Ent => jNats [e.route, e.key, e.mask, e.app, e.core]) r.ent]

def rowsToJson (rows : Nat → Row) : Json :=
  jList (((List.range rtrEntries).filter (fun i => rows i != default)).map (fun i => rowToJson i (rows i)))

def memOfJson (j : Json) : R Rig.C07.Mem := do
  let ps ← (← asArr j).mapM (fun p => asPair p asNat asNat)
  pure (fun a => match ps.find? (fun p => p.1 == a) with
    | some p => p.2
    | none => 0)

def chipStateOfJson (j : Json) : R Chip := do
  pure { mem := ← memOfJson (← field j "mem"), rows := ← rowsOfJson (← field j "rows"),
         copyBase := ← nat j "copy_base" }

def reqToJson (r : Req) : Json :=
  jList [jNat r.x, jNat r.y, jNat r.p, jNat r.cmd, jNat r.arg1, jNat r.arg2, jNat r.arg3, jNats r.data]

def reqOfJson (j : Json) : R Req := do
  match ← asArr j with
  | [x, y, p, c, a1, a2, a3, d] =>
    pure { x := ← asNat x, y := ← asNat y, p := ← asNat p, cmd := ← asNat c, arg1 := ← asNat a1,
           arg2 := ← asNat a2, arg3 := ← asNat a3, data := ← (← asArr d).mapM asNat }
  | _ => .error "req"

def mErrToJson : MErr → Json
  | .routerError c x y => jList [Json.str "RouterError", jNat c, jNat x, jNat y]
  | .structError => jList [Json.str "struct.error"]

def decToJson (d : Option Dec) : Json :=
  jOpt (fun d : Dec => jList [jNats (sortNats d.routes), jNat d.key, jNat d.mask, jNat d.app, jNat d.core,
    jInts (sortInts (d.sources.map srcCode))]) d

def decOfJson (j : Json) : R (Option Dec) :=
  asOpt j (fun d => do
    match ← asArr d with
    | [r, k, m, a, c] => pure { routes := ← (← asArr r).mapM asNat, key := ← asNat k, mask := ← asNat m,
                                app := ← asNat a, core := ← asNat c }
    | [r, k, m, a, c, s] => pure { routes := ← (← asArr r).mapM asNat, key := ← asNat k, mask := ← asNat m,
                                   app := ← asNat a, core := ← asNat c,
                                   sources := (← (← asArr s).mapM asInt).map srcOfCode }
    | _ => .error "dec")

/-- driver representation of a chip: rows materialised in an array after every command -/
structure DChip where
  mem : Rig.C07.Mem
  rows : Array Row
  copyBase : Nat

def DChip.chip (d : DChip) : Chip :=
  { mem := d.mem, rows := fun i => d.rows.getD i default, copyBase := d.copyBase }
def DChip.ofChip (s : Chip) : DChip :=
  { mem := s.mem, rows := (Array.range rtrEntries).map s.rows, copyBase := s.copyBase }

/-- the multi-chip machine of the driver: chips by coordinate -/
abbrev Chips := List (ChipXY × DChip)

def Chips.get (cs : Chips) (c : ChipXY) : Chip :=
  match cs.find? (fun p => p.1 == c) with
  | some p => p.2.chip
  | none => { mem := fun _ => 0, rows := fun _ => default, copyBase := 0 }

def Chips.set (cs : Chips) (c : ChipXY) (s : Chip) : Chips :=
  let d := DChip.ofChip s
  if cs.any (fun p => p.1 == c) then cs.map (fun p => if p.1 == c then (c, d) else p) else cs ++ [(c, d)]

/-- run a program against several chips: each command goes to the chip it addresses;
`bases` gives, per chip, the answers of successive `alloc_rtr` commands -/
def runChips : Prog α → Chips → List (ChipXY × Nat) → Chips × Except MErr α × List Req
  | .ret a, cs, _ => (cs, .ok a, [])
  | .fail e, cs, _ => (cs, .error e, [])
  | .send r k, cs, bases =>
    let c := (r.x, r.y)
    let isAlloc := r.cmd = cmdAllocFree ∧ r.arg1 % 256 = opAllocRtr
    let b := match bases.find? (fun p => p.1 == c) with
      | some p => p.2
      | none => 0
    let sr := stepChip (fun _ _ _ => b) (cs.get c) r
    let bases' := if isAlloc then bases.eraseP (fun p => p.1 == c) else bases
    let cs' := if r.cmd = Rig.Gen.Scp.cmdRead then cs else cs.set c sr.1
    let out := runChips (k sr.2) cs' bases'
    (out.1, out.2.1, r :: out.2.2)

def chipsOfJson (j : Json) : R Chips := do
  (← asArr j).mapM (fun cj => do
    pure (← chipOfJson (← field cj "chip"), DChip.ofChip (← chipStateOfJson cj)))

def basesOfJson (j : Json) : R (List (ChipXY × Nat)) := do
  (← asArr j).mapM (fun p => asPair p chipOfJson asNat)

def baseOfBases (bases : List (ChipXY × Nat)) (c : ChipXY) : Nat :=
  match bases.find? (fun p => p.1 == c) with
  | some p => p.2
  | none => 0

/-- per-chip allocation policy that answers the observed base -/
def polOfBases (bases : List (ChipXY × Nat)) : ChipXY → Pol := fun c _ _ _ => baseOfBases bases c

def rowsByChipOfJson (j : Json) : R (ChipXY → Nat → Row) := do
  let l ← (← asArr j).mapM (fun p => asPair p chipOfJson rowsOfJson)
  pure (fun c => match l.find? (fun p => p.1 == c) with
    | some p => p.2
    | none => fun _ => default)

def chipsToJson (cs : Chips) : Json :=
  jList (cs.map (fun p => jList [chipToJson p.1, rowsToJson p.2.chip.rows]))

/-- replay observed request/reply pairs through the specification; `none` = agreement -/
def replay : Chips → List (Req × Reply × Bool) → Nat → Chips × Option String
  | cs, [], _ => (cs, none)
  | cs, (r, rep, chk) :: rest, n =>
    let c := (r.x, r.y)
    let s := cs.get c
    let isAlloc := r.cmd = cmdAllocFree ∧ r.arg1 % 256 = opAllocRtr
    if isAlloc ∧ rep.arg1 ≠ 0 ∧ ¬ BlockFree s.rows rep.arg1 r.arg2 then
      (cs, some s!"request {n}: alloc_rtr answered {rep.arg1} for {r.arg2} rows, not a free block")
    else
      let sr := stepChip (fun _ _ _ => rep.arg1) s r
      if chk ∧ (sr.2.data != rep.data ∨ (isAlloc ∧ sr.2.arg1 ≠ rep.arg1)) then
        (cs, some s!"request {n}: reply differs from the specification")
      else
        let cs' := if r.cmd = Rig.Gen.Scp.cmdRead then cs else cs.set c sr.1
        replay cs' rest (n + 1)

def handle (op : String) (j : Json) : R Json := do
  match op with
  | "tables" =>
    match treeTables (← netsOfJson j) with
    | .ok t => pure (jOk (tablesToJson t))
    | .error e => pure (errToJson e)
  | "tables_spec" =>
    let nets ← netsOfJson j
    let res ← resultOfJson (← field j "result")
    pure (Json.mkObj [("holds", Json.bool (decide (TablesSpec nets res))),
                      ("conflict", Json.bool (decide (Conflict (allOccs nets))))])
  | "traverse" =>
    let t ← treeOfJson (← field j "tree")
    let tr := traverse t
    pure (Json.mkObj [("visits", jList (tr.1.map (fun v =>
        jList [jOpt jNat v.dir, chipToJson v.chip, jNats (sortNats v.outs)]))), ("assert", Json.bool tr.2)])
  | "to_c04" =>
    -- the tables as C04's model reads them: [route word, key, mask, sources word] per entry
    let t ← tablesOfJson (← field j "tables")
    pure (jList (t.map (fun ct => jList [chipToJson ct.1, jList (ct.2.map (fun e =>
      let c := toC04 e
      jNats [c.route, c.key.toNat, c.mask.toNat, c.sources]))])))
  | "pack" =>
    match packEntry (← nat j "i") (← entryOfJson (← field j "entry")) with
    | .ok b => pure (jOk (jNats b))
    | .error e => pure (Json.mkObj [("err", mErrToJson e)])
  | "unpack" =>
    match unpackEntry (← nats j "bytes") with
    | none => pure (jErr "struct.error")
    | some d => pure (jOk (decToJson d))
  | "load_model" =>
    let cs ← chipsOfJson (← field j "chips")
    let tables ← tablesOfJson (← field j "tables")
    let prog := loadTables (← nat j "scp_len") (← nat j "app") tables
    -- the machine of the theorems (`runM`): chip `c` answers its allocation with the observed base
    let bases ← basesOfJson (← field j "bases")
    -- allocation requests that were executed but whose reply was lost, with the (unseen) answer:
    -- the chip is in `afterLostAlloc` when the retransmitted request arrives
    let lost ← match j.getObjVal? "lost" with
      | .ok l => basesOfJson l
      | .error _ => pure []
    let app ← nat j "app"
    let m0 : Machine := lost.foldl (fun (m : Machine) (p : ChipXY × Nat) =>
      let n := match tables.find? (fun ct => ct.1 == p.1) with
        | some ct => ct.2.length
        | none => 0
      m.set p.1 (afterLostAlloc (fun _ _ _ => p.2) (m p.1) p.1.1 p.1.2 app n)) (fun c => cs.get c)
    let out := runM (polOfBases bases) prog m0
    pure (Json.mkObj [("trace", jList (out.2.2.map reqToJson)),
      ("outcome", match out.2.1 with
        | .ok _ => Json.str "ok"
        | .error e => mErrToJson e),
      ("final", chipsToJson (cs.map (fun p => (p.1, DChip.ofChip (out.1 p.1)))))])
  | "tables_load_spec" =>
    let rows0 ← rowsByChipOfJson (← field j "rows0")
    let rowsF ← rowsByChipOfJson (← field j "rows_f")
    let tables ← tablesOfJson (← field j "tables")
    let bases ← basesOfJson (← field j "bases")
    let res ← asOpt (← field j "raised") (fun e => do
      match ← asArr e with
      | [_, c, x, y] => pure (MErr.routerError (← asNat c) (← asNat x) (← asNat y))
      | _ => pure MErr.structError)
    let others ← (← arr j "others").mapM chipOfJson
    pure (Json.mkObj [
      ("holds", Json.bool (decide (TablesLoadSpec rows0 rowsF (← nat j "app") (baseOfBases bases) res tables))),
      ("others_unchanged", Json.bool (others.all (fun c =>
        (List.range rtrEntries).all (fun i => rowsF c i == rows0 c i))))])
  | "get_model" =>
    let cs ← chipsOfJson (← field j "chips")
    let out := runChips (getEntries (← nat j "scp_len") (← nat j "x") (← nat j "y")) cs []
    pure (Json.mkObj [("trace", jList (out.2.2.map reqToJson)),
      ("outcome", match out.2.1 with
        | .ok t => jOk (jList (t.map decToJson))
        | .error e => Json.mkObj [("err", mErrToJson e)])])
  | "clear_model" =>
    let cs ← chipsOfJson (← field j "chips")
    let out := runChips (clearEntries (← nat j "x") (← nat j "y") (← nat j "app")) cs []
    pure (Json.mkObj [("trace", jList (out.2.2.map reqToJson)), ("final", chipsToJson out.1)])
  | "replay" =>
    let cs ← chipsOfJson (← field j "chips")
    let pairs ← (← arr j "pairs").mapM (fun pj => do
      pure (← reqOfJson (← field pj "req"),
            ({ arg1 := ← nat pj "arg1", data := ← nats pj "data" } : Reply), ← bool pj "check"))
    let out := replay cs pairs 0
    pure (Json.mkObj [("final", chipsToJson out.1), ("disagree", jOpt Json.str out.2)])
  | "load_spec" =>
    let rows0 ← rowsOfJson (← field j "rows0")
    let rowsF ← rowsOfJson (← field j "rows_f")
    let es ← (← arr j "entries").mapM entryOfJson
    pure (Json.bool (decide (LoadSpec rows0 rowsF es (← nat j "app") (← nat j "base")
      (← bool j "raised") (← bool j "wrote_or_loaded"))))
  | "readback_spec" =>
    let rows ← rowsOfJson (← field j "rows")
    let t ← (← arr j "table").mapM decOfJson
    pure (Json.bool (decide (ReadbackSpec rows t)))
  | _ => .error s!"unknown op {op}"

end Rig.C10
