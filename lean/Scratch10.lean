import RigModel.Model.C10
import RigModel.Model.C04
example (a b : Nat) : BitVec.ofNat 32 (a &&& b) = BitVec.ofNat 32 a &&& BitVec.ofNat 32 b := by
  exact BitVec.ofNat_and ..
example (a b : Nat) (ha : a < 2^32) (hb : b < 2^32) : (BitVec.ofNat 32 a == BitVec.ofNat 32 b) = (a == b) := by
  rw [Bool.eq_iff_iff]
  simp only [beq_iff_eq]
  constructor
  · intro h
    have := congrArg BitVec.toNat h
    simp only [BitVec.toNat_ofNat] at this
    omega
  · intro h; rw [h]
#check @Nat.and_lt_two_pow
#check @BitVec.ofNat_toNat
#check @List.find?_map
