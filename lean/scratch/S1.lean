import RigModel.Model.C14
namespace Rig.C14
open Rig.Gen.C14

theorem and_1f (x : Nat) : x &&& 0x1F = x % 32 := Nat.and_two_pow_sub_one_eq_mod x 5
theorem and_ff (x : Nat) : x &&& 0xFF = x % 256 := Nat.and_two_pow_sub_one_eq_mod x 8
theorem and_7ff (x : Nat) : x &&& 0x7FF = x % 2048 := Nat.and_two_pow_sub_one_eq_mod x 11
theorem and_1 (x : Nat) : x &&& 1 = x % 2 := Nat.and_two_pow_sub_one_eq_mod x 1
theorem and_7 (x : Nat) : x &&& 7 = x % 8 := Nat.and_two_pow_sub_one_eq_mod x 3

theorem and_pow_ne_zero (x i : Nat) : (x &&& 2 ^ i != 0) = x.testBit i := by
  cases hb : x.testBit i
  · have : x &&& 2 ^ i = 0 := by
      apply Nat.eq_of_testBit_eq
      intro j
      rw [Nat.testBit_and, Nat.testBit_two_pow, Nat.zero_testBit]
      by_cases hj : i = j
      · subst hj; simp [hb]
      · simp [hj]
    simp [this]
  · have : x &&& 2 ^ i ≠ 0 := by
      intro h0
      have := congrArg (fun v => Nat.testBit v i) h0
      simp [Nat.testBit_and, Nat.testBit_two_pow, hb] at this
    simp [this]

theorem and_bit25 (x : Nat) : (x &&& (1 <<< 25) != 0) = decide (x / 33554432 % 2 = 1) := by
  rw [Nat.one_shiftLeft, and_pow_ne_zero, Nat.testBit_eq_decide_div_mod_eq]

end Rig.C14
