import RigModel.Model.C14
namespace Rig.C14
open Rig.Gen.C14
set_option linter.unusedSimpArgs false

theorem and_1f (x : Nat) : x &&& 0x1F = x % 32 := Nat.and_two_pow_sub_one_eq_mod x 5
theorem and_ff (x : Nat) : x &&& 0xFF = x % 256 := Nat.and_two_pow_sub_one_eq_mod x 8
theorem and_7ff (x : Nat) : x &&& 0x7FF = x % 2048 := Nat.and_two_pow_sub_one_eq_mod x 11
theorem and_1 (x : Nat) : x &&& 1 = x % 2 := Nat.and_two_pow_sub_one_eq_mod x 1
theorem and_7 (x : Nat) : x &&& 7 = x % 8 := Nat.and_two_pow_sub_one_eq_mod x 3

theorem and_pow_ne_zero (x i : Nat) : (x &&& 2 ^ i != 0) = x.testBit i := by
  cases hb : x.testBit i
  · have : x &&& 2 ^ i = 0 := by
      apply Nat.eq_of_testBit_eq
      intro j
      rw [Nat.testBit_and, Nat.testBit_two_pow, Nat.zero_testBit]
      by_cases hj : i = j
      · subst hj; simp [hb]
      · simp [hj]
    simp [this]
  · have : x &&& 2 ^ i ≠ 0 := by
      intro h0
      have := congrArg (fun v => Nat.testBit v i) h0
      simp [Nat.testBit_and, Nat.testBit_two_pow, hb] at this
    simp [this]

theorem and_bit25 (x : Nat) : (x &&& (1 <<< 25) != 0) = decide (x / 33554432 % 2 = 1) := by
  rw [Nat.one_shiftLeft, and_pow_ne_zero, Nat.testBit_eq_decide_div_mod_eq]

theorem linkBit_le (ls : List Nat) (l : Nat) : linkBit ls l ≤ 1 := by
  unfold linkBit; split <;> omega

theorem linkBit_ne (ls : List Nat) (l : Nat) : (linkBit ls l != 0) = decide (l ∈ ls) := by
  unfold linkBit; split <;> simp [*]

theorem chipinfo_roundtrip (c : ChipState) (h : c.WF) : decodeInfo (infoReply c) = .ok (chipView c) := by
  obtain ⟨hc, hl, hv, hsd, hsr, hr, h0, h1, h2, h3, hx, hy⟩ := h
  have hlen : ¬ (c.states ++ [c.ethY, c.ethX, c.ip0, c.ip1, c.ip2, c.ip3]).length < 24 := by
    simp [hl]
  have htake : (c.states ++ [c.ethY, c.ethX, c.ip0, c.ip1, c.ip2, c.ip3]).take 18 = c.states := by
    rw [← hl]; simp
  have hd18 : (c.states ++ [c.ethY, c.ethX, c.ip0, c.ip1, c.ip2, c.ip3]).drop 18 =
      [c.ethY, c.ethX, c.ip0, c.ip1, c.ip2, c.ip3] := by
    rw [← hl]; simp
  have hd20 : (c.states ++ [c.ethY, c.ethX, c.ip0, c.ip1, c.ip2, c.ip3]).drop 20 =
      [c.ip0, c.ip1, c.ip2, c.ip3] := by
    have : (20 : Nat) = 18 + 2 := rfl
    rw [this, ← List.drop_drop, hd18]; rfl
  have hall : c.states.all validState = true := by
    rw [List.all_eq_true]; exact hv
  have b0 := linkBit_le c.links 0
  have b1 := linkBit_le c.links 1
  have b2 := linkBit_le c.links 2
  have b3 := linkBit_le c.links 3
  have b4 := linkBit_le c.links 4
  have b5 := linkBit_le c.links 5
  have n0 := linkBit_ne c.links 0
  have n1 := linkBit_ne c.links 1
  have n2 := linkBit_ne c.links 2
  have n3 := linkBit_ne c.links 3
  have n4 := linkBit_ne c.links 4
  have n5 := linkBit_ne c.links 5
  simp only [decodeInfo, infoReply, hlen, htake, hd18, hd20, hall, if_false, Bool.not_true,
    and_1f, and_ff, and_7ff, and_1, and_bit25, Nat.shiftRight_eq_div_pow, chipView, LINK_VALUES]
  generalize linkBit c.links 0 = l0 at *
  generalize linkBit c.links 1 = l1 at *
  generalize linkBit c.links 2 = l2 at *
  generalize linkBit c.links 3 = l3 at *
  generalize linkBit c.links 4 = l4 at *
  generalize linkBit c.links 5 = l5 at *
  have hrange : List.range 6 = [0, 1, 2, 3, 4, 5] := by decide
  generalize hA : (c.cores + 256 * l0 + 512 * l1 + 1024 * l2 + 2048 * l3 + 4096 * l4 + 8192 * l5 + 16384 * c.rtr +
                if c.ethUp = true then 33554432 else 0) = A
  have hE : (if c.ethUp = true then 33554432 else 0) = (if c.ethUp = true then 1 else 0) * 33554432 := by
    split <;> rfl
  have hEb : (if c.ethUp = true then 1 else 0) ≤ 1 := by split <;> omega
  have hEd : decide ((if c.ethUp = true then 1 else 0) = 1) = c.ethUp := by cases c.ethUp <;> simp
  rw [hE] at hA
  generalize (if c.ethUp = true then 1 else 0) = e at *
  have a1 : A % 32 = c.cores := by omega
  have a2 : A / 2 ^ 14 % 2048 = c.rtr := by omega
  have a3 : A / 33554432 % 2 = e := by omega
  have k0 : A / 2 ^ (8 + 0) % 2 = l0 := by omega
  have k1 : A / 2 ^ (8 + 1) % 2 = l1 := by omega
  have k2 : A / 2 ^ (8 + 2) % 2 = l2 := by omega
  have k3 : A / 2 ^ (8 + 3) % 2 = l3 := by omega
  have k4 : A / 2 ^ (8 + 4) % 2 = l4 := by omega
  have k5 : A / 2 ^ (8 + 5) % 2 = l5 := by omega
  have i0 : leVal (List.take 4 [c.ip0, c.ip1, c.ip2, c.ip3]) / 2 ^ 0 % 256 = c.ip0 := by
    simp only [List.take, leVal]; omega
  have i1 : leVal (List.take 4 [c.ip0, c.ip1, c.ip2, c.ip3]) / 2 ^ 8 % 256 = c.ip1 := by
    simp only [List.take, leVal]; omega
  have i2 : leVal (List.take 4 [c.ip0, c.ip1, c.ip2, c.ip3]) / 2 ^ 16 % 256 = c.ip2 := by
    simp only [List.take, leVal]; omega
  have i3 : leVal (List.take 4 [c.ip0, c.ip1, c.ip2, c.ip3]) / 2 ^ 24 % 256 = c.ip3 := by
    simp only [List.take, leVal]; omega
  have e0 : leVal (List.take 2 [c.ethY, c.ethX, c.ip0, c.ip1, c.ip2, c.ip3]) / 2 ^ 8 % 256 = c.ethX := by
    simp only [List.take, leVal]; omega
  have e1 : leVal (List.take 2 [c.ethY, c.ethX, c.ip0, c.ip1, c.ip2, c.ip3]) % 256 = c.ethY := by
    simp only [List.take, leVal]; omega
  simp only [a1, a2, a3, hEd, hrange, List.filter_cons, List.filter_nil, k0, k1, k2, k3, k4, k5, n0, n1, n2, n3, n4, n5,
    List.map_cons, List.map_nil, i0, i1, i2, i3, e0, e1, Bool.false_eq_true, if_false]
end Rig.C14
