import RigModel.Model.C14
namespace Rig.C14
open Rig.Gen.C14
set_option linter.unusedSimpArgs false
theorem and_ff (x : Nat) : x &&& 0xFF = x % 256 := Nat.and_two_pow_sub_one_eq_mod x 8
theorem and_7 (x : Nat) : x &&& 7 = x % 8 := Nat.and_two_pow_sub_one_eq_mod x 3

theorem readMem_add (mem : Nat → Nat) (a m n : Nat) :
    readMem mem a (m + n) = readMem mem a m ++ readMem mem (a + m) n := by
  simp only [readMem, List.range_add, List.map_append, List.map_map]
  congr 1
  apply List.map_congr_left
  intro i _
  simp [Nat.add_assoc]

theorem readMem_length (mem : Nat → Nat) (a n : Nat) : (readMem mem a n).length = n := by
  simp [readMem]

theorem readMem_four (mem : Nat → Nat) (a : Nat) :
    readMem mem a 4 = [mem a, mem (a + 1), mem (a + 2), mem (a + 3)] := rfl

theorem p2pWord_lt (f : Nat → Nat → Nat) (hf : ∀ x y, f x y < 8) (c k : Nat) : p2pWord f c k < 16777216 := by
  unfold p2pWord
  have := hf c (8 * k); have := hf c (8 * k + 1); have := hf c (8 * k + 2); have := hf c (8 * k + 3)
  have := hf c (8 * k + 4); have := hf c (8 * k + 5); have := hf c (8 * k + 6); have := hf c (8 * k + 7)
  omega

theorem p2pMem_word (f : Nat → Nat → Nat) (hf : ∀ x y, f x y < 8) (c k : Nat) (hk : k < 32) :
    leVal (readMem (p2pMem f) (SPINNAKER_RTR_P2P + 128 * c + 4 * k) 4) = p2pWord f c k := by
  have hW := p2pWord_lt f hf c k
  have hb : ∀ j, j < 4 → p2pMem f (SPINNAKER_RTR_P2P + 128 * c + 4 * k + j) = p2pWord f c k / 256 ^ j % 256 := by
    intro j hj
    simp only [p2pMem]
    have e1 : (SPINNAKER_RTR_P2P + 128 * c + 4 * k + j - SPINNAKER_RTR_P2P) / 128 = c := by omega
    have e2 : (SPINNAKER_RTR_P2P + 128 * c + 4 * k + j - SPINNAKER_RTR_P2P) % 128 / 4 = k := by omega
    have e3 : (SPINNAKER_RTR_P2P + 128 * c + 4 * k + j - SPINNAKER_RTR_P2P) % 4 = j := by omega
    rw [e1, e2, e3]
  rw [readMem_four]
  have h0 := hb 0 (by omega)
  have h1 := hb 1 (by omega)
  have h2 := hb 2 (by omega)
  have h3 := hb 3 (by omega)
  simp only [Nat.add_zero] at h0
  rw [h0, h1, h2, h3]
  simp only [leVal]
  generalize p2pWord f c k = W at *
  omega

theorem p2pWord_entry (f : Nat → Nat → Nat) (hf : ∀ x y, f x y < 8) (c k e : Nat) (he : e < 8) :
    (p2pWord f c k >>> (3 * e)) &&& 7 = f c (8 * k + e) := by
  rw [and_7, Nat.shiftRight_eq_div_pow]
  unfold p2pWord
  have := hf c (8 * k); have := hf c (8 * k + 1); have := hf c (8 * k + 2); have := hf c (8 * k + 3)
  have := hf c (8 * k + 4); have := hf c (8 * k + 5); have := hf c (8 * k + 6); have := hf c (8 * k + 7)
  have : e = 0 ∨ e = 1 ∨ e = 2 ∨ e = 3 ∨ e = 4 ∨ e = 5 ∨ e = 6 ∨ e = 7 := by omega
  rcases this with rfl | rfl | rfl | rfl | rfl | rfl | rfl | rfl <;> simp only [Nat.mul_zero, Nat.add_zero, Nat.reduceMul, Nat.reducePow] <;> omega


theorem wordEntries_spec (f : Nat → Nat → Nat) (hf : ∀ x y, f x y < 8) (c k n : Nat) (hn : n ≤ 8) :
    wordEntries (p2pWord f c k) (8 * k) n = (List.range n).map fun e => (8 * k + e, f c (8 * k + e)) := by
  unfold wordEntries
  apply List.map_congr_left
  intro e he
  rw [List.mem_range] at he
  rw [p2pWord_entry f hf c k e (by omega)]

theorem colLoop_done (fuel : Nat) (raw : List Nat) (row h : Nat) (hr : h ≤ row) :
    colLoop fuel raw row h = .ok [] := by
  cases fuel with
  | zero => rfl
  | succ n =>
    have : ¬ row < h := by omega
    simp [colLoop, this]

/-- rows `8k ..` of column `c` -/
def colRows (f : Nat → Nat → Nat) (c k h : Nat) : List (Nat × Nat) :=
  (List.range (h - 8 * k)).map fun i => (8 * k + i, f c (8 * k + i))

theorem colLoop_spec (f : Nat → Nat → Nat) (hf : ∀ x y, f x y < 8) (c h : Nat) (hh : h ≤ 255) :
    ∀ (fuel k : Nat), (h + 7) / 8 ≤ fuel + k →
      colLoop fuel (readMem (p2pMem f) (SPINNAKER_RTR_P2P + 128 * c + 4 * k) (4 * ((h + 7) / 8 - k))) (8 * k) h
        = .ok (colRows f c k h) := by
  intro fuel
  induction fuel with
  | zero =>
    intro k hk
    have : h - 8 * k = 0 := by omega
    simp [colLoop, colRows, this]
  | succ n ih =>
    intro k hk
    by_cases hlt : 8 * k < h
    · have hK : (h + 7) / 8 - k = 1 + ((h + 7) / 8 - (k + 1)) := by omega
      have hk32 : k < 32 := by omega
      rw [hK, Nat.mul_add, readMem_add]
      have htake : List.take 4 (readMem (p2pMem f) (SPINNAKER_RTR_P2P + 128 * c + 4 * k) (4 * 1) ++
          readMem (p2pMem f) (SPINNAKER_RTR_P2P + 128 * c + 4 * k + 4 * 1) (4 * ((h + 7) / 8 - (k + 1)))) =
          readMem (p2pMem f) (SPINNAKER_RTR_P2P + 128 * c + 4 * k) 4 := by
        rw [List.take_left']; rw [readMem_length]
      have hdrop : List.drop 4 (readMem (p2pMem f) (SPINNAKER_RTR_P2P + 128 * c + 4 * k) (4 * 1) ++
          readMem (p2pMem f) (SPINNAKER_RTR_P2P + 128 * c + 4 * k + 4 * 1) (4 * ((h + 7) / 8 - (k + 1)))) =
          readMem (p2pMem f) (SPINNAKER_RTR_P2P + 128 * c + 4 * (k + 1)) (4 * ((h + 7) / 8 - (k + 1))) := by
        rw [List.drop_left']
        · congr 1
        · rw [readMem_length]
      simp only [colLoop, hlt, if_true, htake, hdrop, readMem_length, ne_eq, not_true, if_false,
        p2pMem_word f hf c k hk32]
      by_cases h8 : 8 ≤ h - 8 * k
      · have hmin : min 8 (h - 8 * k) = 8 := by omega
        rw [hmin, show 8 * k + 8 = 8 * (k + 1) by omega, ih (k + 1) (by omega)]
        simp only [wordEntries_spec f hf c k 8 (by omega), colRows]
        have : h - 8 * k = 8 + (h - 8 * (k + 1)) := by omega
        rw [this, List.range_add, List.map_append, List.map_map]
        congr 2
        apply List.map_congr_left
        intro i _
        have e : 8 * (k + 1) + i = 8 * k + (8 + i) := by omega
        simp only [Function.comp, e]
      · have hmin : min 8 (h - 8 * k) = h - 8 * k := by omega
        rw [hmin, colLoop_done _ _ _ _ (by omega)]
        simp only [wordEntries_spec f hf c k (h - 8 * k) (by omega), colRows, List.append_nil]
    · have : h - 8 * k = 0 := by omega
      simp [colLoop, hlt, colRows, this]


/-- what the table must contain: entry of every (x, y) inside the dimensions, column by column -/
def p2pSpecTable (f : Nat → Nat → Nat) (cols : List Nat) (h : Nat) : List ((Nat × Nat) × Nat) :=
  cols.flatMap fun c => (List.range h).map fun r => ((c, r), f c r)

theorem p2pCols_spec (f : Nat → Nat → Nat) (hf : ∀ x y, f x y < 8) (rd : Rd) (h : Nat) (hh : h ≤ 255)
    (hrd : ∀ a n, SPINNAKER_RTR_P2P ≤ a → rd a n = readMem (p2pMem f) a n) (cols : List Nat) :
    p2pCols rd (((h + 7) / 8) * 4) h cols = .ok (p2pSpecTable f cols h) := by
  induction cols with
  | nil => rfl
  | cons c cs ih =>
    have haddr : SPINNAKER_RTR_P2P + ((256 * c) / 8) * 4 = SPINNAKER_RTR_P2P + 128 * c + 4 * 0 := by omega
    have hlen : ((h + 7) / 8) * 4 = 4 * ((h + 7) / 8 - 0) := by omega
    have hcol := colLoop_spec f hf c h hh h 0 (by omega)
    simp only [p2pCols, ih]
    rw [hrd _ _ (by omega), haddr, hlen, Nat.mul_zero] at *
    rw [hcol]
    simp only [colRows, p2pSpecTable, List.flatMap_cons, Nat.mul_zero, Nat.sub_zero, Nat.zero_add, List.map_map]
    rfl

theorem p2p_roundtrip_dims (f : Nat → Nat → Nat) (hf : ∀ x y, f x y < 8) (rd : Rd) (w h : Nat)
    (hw : w ≤ 255) (hh : h ≤ 255)
    (hrd : ∀ a n, SPINNAKER_RTR_P2P ≤ a → rd a n = readMem (p2pMem f) a n) :
    p2pTableOfDims rd (w * 256 + h) = .ok (p2pSpecTable f (List.range w) h) := by
  have e1 : ((w * 256 + h) >>> 8) &&& 0xFF = w := by
    rw [and_ff, Nat.shiftRight_eq_div_pow]; omega
  have e2 : ((w * 256 + h) >>> 0) &&& 0xFF = h := by
    rw [and_ff, Nat.shiftRight_eq_div_pow]; omega
  simp only [p2pTableOfDims, e1, e2]
  exact p2pCols_spec f hf rd h hh hrd (List.range w)

end Rig.C14
