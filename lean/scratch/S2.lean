import RigModel.Model.C14
open Nat
#check @Nat.and_two_pow_eq
#check @Nat.testBit_eq_decide_div_mod_eq
#check @Nat.and_pow_two_is_mod
#check @Nat.testBit_and
#check @Nat.testBit_two_pow
#check @Nat.and_pow_two_sub_one_eq_mod
#check @Nat.testBit_shiftRight
#check @Nat.testBit_two_pow_mul_add
#check @Nat.testBit_succ
#check @Nat.eq_of_testBit_eq
#check @Nat.two_pow_and
example (x : Nat) : x &&& 2^25 = if x.testBit 25 then 2^25 else 0 := by exact?
