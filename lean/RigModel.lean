import RigModel.Model.Proto
import RigModel.Model.C15
