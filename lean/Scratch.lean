import RigModel.Model.C09
open Rig.Gen.Load
example (v p : Nat) : v ≤ v + vcpuSize * p + offCpuState ∧
        (v + vcpuSize * p + offCpuState - v) % vcpuSize = offCpuState ∧ 1 = 1 := by
  simp only [vcpuSize, offCpuState]
  trace_state
  omega
