import RigModel.Props.C09
import Mathlib.Tactic.IntervalCases
namespace Rig.C09
open Rig.Gen.Load

/-! ### instances: non-vacuity of the hypotheses, and the counterexamples without `PreClean` -/

/-- one chip (0, 0); `allMiss` decides whether the chip misses every fill -/
def mcE (allMiss : Bool) : MCfg :=
  { chips := [(0, 0)], missed := fun _ _ _ => allMiss, sdramSys := 1610612736, vcpuBase := 3842011136 }
/-- region word 0x00030001 = level 3, base (0, 0), block 0: chip (0, 0) only; mask 2 = core 1 -/
def ctlE (useCount wait : Bool) : Ctl :=
  { buf := 4, compress := fun t => if wantsT t 0 0 1 then [(196609, 2)] else [], appId := 30, nTries := 2,
    wait := wait, useCount := useCount }
def rxE : Rx := { idx := 0, pid := 0, nBlocks := 0, got := 0, next := 0, regs := [], data := [], ok := false }
/-- one binary of 8 bytes (two blocks) for core 1 of chip (0, 0) -/
def appsE : List App := [{ name := 0, image := [1, 2, 3, 4, 5, 6, 7, 8], targets := [(0, 0, [1])] }]
/-- all cores idle except core `p0` of chip (0, 0), which waits under app id `app0` with another binary -/
def initE (p0 app0 : Nat) : Sim :=
  { m := { core := fun x y p => if x = 0 ∧ y = 0 ∧ p = p0 then ⟨stWait, app0, [9]⟩ else ⟨stIdle, 0, []⟩,
           rx := rxE, fills := 0 }, nn := 126, trace := [] }

theorem validE (allMiss useCount wait : Bool) : Valid (mcE allMiss) (ctlE useCount wait) appsE where
  hb := by show 4 ≤ 4; decide
  hb4 := by show 4 ∣ 4; decide
  hbmax := by show 4 ≤ 1024; decide
  happ := by show 30 < 256; decide
  hv := by show 3842011136 < 4294967296; decide
  himg := by
    intro a ha
    simp only [appsE, List.mem_singleton] at ha
    subst ha
    show 4 ∣ 8 ∧ 8 ≤ 255 * 4
    decide
  hchips := by show [((0 : Nat), (0 : Nat))].Nodup; decide
  hin := by
    intro a ha x y p hw
    simp only [appsE, List.mem_singleton] at ha
    subst ha
    simp only [wants, List.any_cons, List.any_nil, Bool.or_false, Bool.and_eq_true, beq_iff_eq,
      List.contains_iff_mem, List.mem_singleton] at hw
    obtain ⟨⟨rfl, rfl⟩, rfl⟩ := hw
    exact ⟨by simp [mcE], by decide⟩
  hdisj := by
    intro a ha b hb _ _ _ _ _
    simp only [appsE, List.mem_singleton] at ha hb
    rw [ha, hb]
  hcomp := by
    intro t ⟨a, ha, hsub⟩
    simp only [appsE, List.mem_singleton] at ha
    subst ha
    have honly : ∀ p, p ≠ 1 → wantsT t 0 0 p = false := by
      intro p hp
      cases h : wantsT t 0 0 p with
      | false => rfl
      | true =>
        have := hsub 0 0 p h
        simp only [wants, List.any_cons, List.any_nil, Bool.or_false, Bool.and_eq_true, beq_iff_eq,
          List.contains_iff_mem, List.mem_singleton] at this
        exact absurd this.2 hp
    constructor
    · intro rm hrm
      simp only [ctlE] at hrm
      split at hrm
      · simp only [List.mem_singleton] at hrm; subst hrm; decide
      · simp at hrm
    · intro x y p hc hp
      simp only [mcE, List.mem_singleton, Prod.mk.injEq] at hc
      obtain ⟨rfl, rfl⟩ := hc
      simp only [ctlE]
      by_cases hp1 : p = 1
      · subst hp1
        cases h : wantsT t 0 0 1 with
        | false => simp [selectsCore]
        | true => simp only [if_true]; decide
      · rw [honly p hp1]
        split
        · interval_cases p <;> first | exact absurd rfl hp1 | decide
        · simp [selectsCore]

end Rig.C09
