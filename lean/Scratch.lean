import RigModel.Lemmas.C08Add
#check @Nat.testBit_shiftRight
#check @Nat.testBit_mod_two_pow
#check @Nat.testBit_lt_two_pow
#check @Nat.pow_le_pow_right
#check @Nat.testBit_and
