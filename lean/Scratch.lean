import RigModel.Model.C02
#check @List.Nodup.sublist
#check @List.filter_sublist
#check @List.Sublist.nodup
#check @List.Nodup.filter
