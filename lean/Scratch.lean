import RigModel.Lemmas.C08Assign
namespace Rig.C08
#check @call.check
#print call.check
end Rig.C08
