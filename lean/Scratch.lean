import RigModel.Props.C02
namespace Rig.C02
open Vtx Constraint

def exVR : VR := [(o 0, [1, 0]), (o 1, [1, 2]), (o 2, [0, 1])]
def exCS : List Constraint := [same [o 0, o 1], loc (o 1) (1, 0), reserve 1 1 none, loc (o 0) (1, 0)]
def exM : Machine := { w := 2, h := 1, res := [5, 8], exc := [((0, 0), [1, 2])], dead := [] }

#eval seqPlace exVR exCS exM (some [o 2, o 1, o 0]) (some [(1,0),(0,0)])
#eval randPlace exVR exCS exM [(1,0),(0,0)]
#eval applySame exVR exCS

example : seqPlace exVR exCS exM (some [o 2, o 1, o 0]) (some [(1,0),(0,0)]) =
    .ok [(o 2, (1,0)), (o 0, (1, 0)), (o 1, (1, 0))] := by rfl
example : randPlace exVR exCS exM [(0,0),(1,0)] =
    .ok [(o 2, (1,0)), (o 0, (1, 0)), (o 1, (1, 0))] := by rfl
end Rig.C02
