/-
Line-protocol driver: one JSON request per line on stdin, one JSON reply per
line on stdout.  Request: {"suite": "c15", "op": "...", ...}.
-/
import RigModel.Model.Proto
import RigModel.Model.C15
open Lean

def dispatch (suite op : String) (j : Json) : Except String Json :=
  match suite with
  | "c15" => Rig.C15.handle op j
  | _ => .error s!"unknown suite {suite}"

def handleLine (line : String) : String :=
  match Json.parse line with
  | .error e => (Json.mkObj [("proto_error", Json.str e)]).compress
  | .ok j =>
    match (do
      let s ← Rig.P.str j "suite"
      let o ← Rig.P.str j "op"
      dispatch s o j : Except String Json) with
    | .ok r => r.compress
    | .error e => (Json.mkObj [("proto_error", Json.str e)]).compress

partial def loop (h : IO.FS.Stream) (out : IO.FS.Stream) : IO Unit := do
  let line ← h.getLine
  if line.isEmpty then
    out.flush
    return ()
  out.putStrLn (handleLine line)
  loop h out

def main : IO Unit := do loop (← IO.getStdin) (← IO.getStdout)
