#!/venv/bin/python
"""Record a fingerprint of every function of the implementation (AST without docstrings) in
baseline_functions.json.  `./check` compares the current source of the property's anchored files with it and,
when a function differs, widens its exploration (the same `extended` search that a broken obligation triggers):
more cases where the code has just changed.  Never a verdict by itself.  Re-run after every fix commit."""
import ast
import hashlib
import json
import os
import sys

VERIF = os.path.dirname(os.path.dirname(os.path.abspath(__file__)))


def fingerprints(repo):
    out = {}
    root = os.path.join(repo, "rig")
    for d, _, fs in os.walk(root):
        for f in sorted(fs):
            if not f.endswith(".py"):
                continue
            p = os.path.join(d, f)
            rel = os.path.relpath(p, repo)
            try:
                import warnings
                with warnings.catch_warnings():
                    warnings.simplefilter("ignore")
                    tree = ast.parse(open(p, "rb").read())
            except SyntaxError:
                out[rel] = {"<syntax-error>": ""}
                continue
            fns = {}

            def strip(node):
                b = getattr(node, "body", None)
                if (isinstance(b, list) and b and isinstance(b[0], ast.Expr) and isinstance(getattr(b[0], "value", None), ast.Constant)
                        and isinstance(b[0].value.value, str)):
                    node.body = b[1:] or [ast.Pass()]

            def walk(node, prefix):
                for ch in ast.iter_child_nodes(node):
                    if isinstance(ch, (ast.FunctionDef, ast.AsyncFunctionDef, ast.ClassDef)):
                        q = prefix + ch.name
                        walk(ch, q + ".")
                        if not isinstance(ch, ast.ClassDef):
                            strip(ch)
                            fns[q] = hashlib.sha1(ast.unparse(ch).encode()).hexdigest()[:16]
            walk(tree, "")
            # module level statements other than defs (tables, constants, defaults)
            top = [n for n in tree.body if not isinstance(n, (ast.FunctionDef, ast.AsyncFunctionDef, ast.ClassDef))]
            top = [n for n in top if not (isinstance(n, ast.Expr) and isinstance(getattr(n, "value", None), ast.Constant))]
            fns["<module>"] = hashlib.sha1("\n".join(ast.unparse(n) for n in top).encode()).hexdigest()[:16]
            # class bodies outside methods
            for n in ast.walk(tree):
                if isinstance(n, ast.ClassDef):
                    body = [b for b in n.body if not isinstance(b, (ast.FunctionDef, ast.AsyncFunctionDef, ast.ClassDef))]
                    body = [b for b in body if not (isinstance(b, ast.Expr) and isinstance(getattr(b, "value", None), ast.Constant))]
                    fns["<class %s>" % n.name] = hashlib.sha1("\n".join(ast.unparse(b) for b in body).encode()).hexdigest()[:16]
            out[rel] = fns
    return out


def changed(repo, files=None):
    """[(file, function)] whose fingerprint differs from the recorded baseline (files: restrict to these)"""
    p = os.path.join(VERIF, "baseline_functions.json")
    if not os.path.exists(p):
        return []
    rec = json.load(open(p))
    if rec.get("python") != list(sys.version_info[:2]):
        return []       # fingerprints of another interpreter version are not comparable
    base = rec["functions"]
    cur = fingerprints(repo)
    out = []
    for rel in sorted(set(base) | set(cur)):
        if files is not None and rel not in files:
            continue
        b, c = base.get(rel, {}), cur.get(rel, {})
        for q in sorted(set(b) | set(c)):
            if b.get(q) != c.get(q):
                out.append((rel, q))
    return out


if __name__ == "__main__":
    repo = sys.argv[1] if len(sys.argv) > 1 else "/repo"
    import subprocess
    head = subprocess.run(["git", "-C", repo, "log", "-1", "--format=%h"], stdout=subprocess.PIPE).stdout.decode().strip()
    json.dump({"repo_head": head, "python": list(sys.version_info[:2]), "functions": fingerprints(repo)},
              open(os.path.join(VERIF, "baseline_functions.json"), "w"), indent=0, sort_keys=True)
    print("recorded", head)
