#!/usr/bin/env python3
"""Markdown table of the stored seeded changes of one round (from seeded/*/meta.json):
usage: seed_table.py r3   ->  | seed | summary | first evaluation | caught now by |"""
import glob
import json
import os
import sys

VERIF = os.path.dirname(os.path.dirname(os.path.abspath(__file__)))


def keys(lines):
    out = []
    for l in lines or []:
        if "replay=" in l:
            k = l.split("replay=replays/")[1].split(".json")[0].split("_", 1)[1]
            out.append(k + (" (no input)" if "no-failing-input-found" in l else ""))
    return out


def verdict(d):
    if d.get("caught") is None:
        return "not measured (check strengthened first)"
    if not d["caught"]:
        return "**missed**"
    return "caught" if d.get("caught_with_concrete_input") else "caught, no input"


def main():
    suffix = sys.argv[1]
    print("| seed | summary (seeder's words, shortened) | first evaluation | now |")
    print("|------|--------------------------------------|------------------|-----|")
    for d in sorted(glob.glob(os.path.join(VERIF, "seeded", "*-%s[a-f]" % suffix))):
        if not os.path.exists(os.path.join(d, "meta.json")):
            continue
        m = json.load(open(os.path.join(d, "meta.json")))
        s = (m.get("summary") or "").replace("\n", " ").replace("|", "/")[:150]
        now = ", ".join("`%s`" % k for k in keys(m.get("check_lines"))[:3]) or "**missed**"
        print("| %s | %s | %s | %s |" % (os.path.basename(d), s, verdict(m.get("first_evaluation") or {"caught": m.get("caught"), "caught_with_concrete_input": m.get("caught_with_concrete_input")}), now))


if __name__ == "__main__":
    main()
