#!/usr/bin/env python3
"""Confirm a seeded change and run the property's check against it.

usage: seed_eval.py <PROP> <dir with patch.diff demo.py meta.json> <name> [--tier quick|thorough] [--seed N]

1. scratch worktree of /repo HEAD (outside /repo and /verif): demo must exit 0;
   apply patch: demo must exit non-zero; the test suite's passing set must be
   the same as on HEAD.  2. apply the patch to /repo, run ./check PROP, undo.
3. store everything under /verif/seeded/<name>/.
"""
import json
import os
import shutil
import subprocess
import sys
import xml.etree.ElementTree as ET

VERIF = os.path.dirname(os.path.dirname(os.path.abspath(__file__)))
# several evaluations may run at the same time: each with its own tag (scratch paths) and its own copy of the
# framework to run the check in (a git worktree of /verif with `main` merged; default: /verif itself)
TAG = os.environ.get("SEED_EVAL_TAG", "")
COPY = os.environ.get("SEED_EVAL_COPY", VERIF)


def sh(cmd, cwd=None, env=None, timeout=3000):
    p = subprocess.run(cmd, shell=True, cwd=cwd, env=env, stdout=subprocess.PIPE, stderr=subprocess.STDOUT, timeout=timeout)
    return p.returncode, p.stdout.decode("utf-8", "replace")


def passing(repo):
    out = "/tmp/seedchk_junit%s.xml" % TAG
    sh("/venv/bin/python -m pytest -q -p no:cacheprovider --timeout=900 --continue-on-collection-errors --junitxml=%s" % out, cwd=repo)
    ok = set()
    for tc in ET.parse(out).iter("testcase"):
        if not any(ch.tag in ("failure", "error", "skipped") for ch in tc):
            ok.add("%s::%s" % (tc.get("classname"), tc.get("name")))
    os.remove(out)
    return ok


def main():
    prop, src, name = sys.argv[1:4]
    tier = sys.argv[sys.argv.index("--tier") + 1] if "--tier" in sys.argv else "quick"
    seed = sys.argv[sys.argv.index("--seed") + 1] if "--seed" in sys.argv else "0"
    patch = os.path.abspath(os.path.join(src, "patch.diff"))
    demo = os.path.abspath(os.path.join(src, "demo.py"))
    head = sh("git -C /repo log -1 --format=%h")[1].strip()
    assert sh("git -C /repo status --porcelain --untracked-files=no")[1].strip() == "", "/repo is dirty"
    if COPY != VERIF:
        assert sh("git -C %s merge-base --is-ancestor %s HEAD" % (COPY, sh("git -C %s rev-parse HEAD" % VERIF)[1].strip()))[0] == 0, \
            "the framework copy %s does not contain /verif's HEAD (merge main there first)" % COPY
    scratch = "/tmp/seedchk_repo%s" % TAG
    sh("git -C /repo worktree remove --force %s" % scratch)
    rc, out = sh("git -C /repo worktree add %s HEAD" % scratch)
    assert rc == 0, out
    res = {"property": prop, "repo_head": head}
    try:
        env = dict(os.environ, PYTHONPATH=scratch)
        cache = "/tmp/seedchk_pass_%s.json" % head
        if os.path.exists(cache):
            base = set(json.load(open(cache)))
        else:
            base = passing(scratch)
            json.dump(sorted(base), open(cache, "w"))
        res["demo_unchanged_exit"], _ = sh("/venv/bin/python %s" % demo, cwd=scratch, env=env)
        rc, out = sh("git apply %s" % patch, cwd=scratch)
        if rc != 0:
            rc, out = sh("git apply --3way %s" % patch, cwd=scratch)
        res["patch_applies"] = rc == 0
        if rc != 0:
            print("patch does not apply:", out)
            return 2
        res["demo_changed_exit"], dout = sh("/venv/bin/python %s" % demo, cwd=scratch, env=env)
        res["demo_changed_output"] = dout[-600:]
        after = passing(scratch)
        res["tests_passing_before"] = len(base)
        res["tests_passing_after"] = len(after)
        res["tests_lost"] = sorted(base - after)[:10]
        # regenerate the patch against current HEAD (in case of 3-way)
        _, newpatch = sh("git diff", cwd=scratch)
    finally:
        sh("git -C /repo worktree remove --force %s" % scratch)
    confirmed = (res["demo_unchanged_exit"] == 0 and res["demo_changed_exit"] != 0 and not res["tests_lost"])
    res["confirmed"] = confirmed
    print(json.dumps({k: v for k, v in res.items() if k != "demo_changed_output"}, indent=1))
    if not confirmed:
        print("NOT CONFIRMED - not kept")
        return 3
    dst = os.path.join(VERIF, "seeded", name)
    os.makedirs(dst, exist_ok=True)
    if newpatch.strip():
        open(os.path.join(dst, "patch.diff"), "w").write(newpatch)
    if os.path.abspath(demo) != os.path.abspath(os.path.join(dst, "demo.py")):
        shutil.copy(demo, os.path.join(dst, "demo.py"))
    # what the check said the FIRST time this change was evaluated is kept across re-evaluations
    first = None
    old_meta_path = os.path.join(dst, "meta.json")
    if os.path.exists(old_meta_path):
        try:
            om = json.load(open(old_meta_path))
            first = om.get("first_evaluation")
            if first is None and "caught" in om:
                first = {"caught": om["caught"], "caught_with_concrete_input": om.get("caught_with_concrete_input"),
                         "check_lines": om.get("check_lines", [])}
        except Exception:
            first = None
    meta = {}
    if os.path.exists(os.path.join(src, "meta.json")):
        try:
            meta = json.load(open(os.path.join(src, "meta.json")))
        except Exception:
            meta = {}
    # run the check against the change
    in_repo = "--in-repo" in sys.argv
    ev = os.path.join(COPY, "evidence", "%s.json" % prop)
    ev_saved = open(ev).read() if os.path.exists(ev) else None
    if in_repo:
        target, env2 = "/repo", dict(os.environ, VERIF_SEED=seed)
    else:
        # while other workers run checks against /repo, a seeded change is applied to a scratch worktree
        # and the check is pointed at it with RIG_REPO (same code path as /repo)
        target = "/tmp/seedrun_repo%s" % TAG
        sh("git -C /repo worktree remove --force %s" % target)
        rc, out = sh("git -C /repo worktree add %s HEAD" % target)
        assert rc == 0, out
        env2 = dict(os.environ, VERIF_SEED=seed, RIG_REPO=target)
    rc, out = sh("git apply %s" % os.path.join(dst, "patch.diff"), cwd=target)
    assert rc == 0, out
    try:
        crc, cout = sh("./check %s --tier %s" % (prop, tier), cwd=COPY, env=env2)
    finally:
        if in_repo:
            sh("git checkout -- .", cwd="/repo")
        else:
            sh("git -C /repo worktree remove --force %s" % target)
        # the evidence file of a run against a seeded change is not evidence about /repo: restore
        if ev_saved is not None:
            open(ev, "w").write(ev_saved)
        # generated model sources were regenerated from the seeded tree: put the committed ones back
        sh("git checkout -- lean/RigModel/Gen", cwd=COPY)
    lines = [l for l in cout.splitlines() if l.startswith("VIOLATION") or l.startswith("KNOWN-FINDING") or l.startswith("INFRA")]
    replays = []
    for l in lines:
        if "replay=" in l:
            rp = l.split("replay=")[1].split()[0]
            src_rp = os.path.join(COPY, rp)
            if os.path.exists(src_rp):
                shutil.copy(src_rp, os.path.join(dst, os.path.basename(rp)))
                replays.append(os.path.basename(rp))
    meta.update({
        "property": prop, "confirmed_by_me": res,
        "what_i_ran": ["scratch worktree of /repo@%s: demo.py before (exit %d) / after (exit %d) the patch; full pytest suite before/after: passing set unchanged (%d tests)" % (
            head, res["demo_unchanged_exit"], res["demo_changed_exit"], len(base)),
            ("git -C /repo apply patch.diff; VERIF_SEED=%s ./check %s --tier %s; git -C /repo checkout -- ." if in_repo else "scratch worktree of /repo with patch.diff applied; RIG_REPO=<scratch> VERIF_SEED=%s ./check %s --tier %s") % (seed, prop, tier)],
        "check_exit": crc, "check_lines": [l[:300] for l in lines], "check_tail": cout.splitlines()[-1][:300] if cout else "",
        "caught": crc == 1 and any(l.startswith("VIOLATION") for l in lines),
        "caught_with_concrete_input": crc == 1 and any(l.startswith("VIOLATION") and "no-failing-input-found" not in l for l in lines),
        "replays": replays,
    })
    meta["first_evaluation"] = first if first is not None else {
        "caught": meta["caught"], "caught_with_concrete_input": meta["caught_with_concrete_input"],
        "check_lines": meta["check_lines"]}
    json.dump(meta, open(os.path.join(dst, "meta.json"), "w"), indent=1)
    print("check exit", crc)
    print("\n".join(lines)[:1500])
    return 0


if __name__ == "__main__":
    sys.exit(main())
