#!/bin/sh
# merge an agent branch; generated files are regenerated, never merged by hand
set -e
cd /verif
b=$1
git merge --no-commit --no-ff "$b" >/dev/null 2>&1 || true
for f in MANIFEST.json lean/Driver.lean lean/RigModel.lean $(git diff --name-only --diff-filter=U | grep "^evidence/"); do
  git checkout --ours -- $f 2>/dev/null || true
done
python3 tools/mk_driver.py
python3 tools/mk_manifest.py
git add -A
git status --short | grep -E "^(UU|AA|DU|UD)" && { echo "CONFLICTS remain"; exit 1; }
git commit -q -m "Merge $b"
echo merged $b
