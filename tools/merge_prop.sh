#!/bin/sh
# merge an agent branch; generated files are regenerated, never merged by hand
set -e
cd /verif
b=$1
# local evidence edits (from check runs) must not block the merge
git checkout -- evidence 2>/dev/null || true
git merge --no-commit --no-ff "$b" >/tmp/merge.log 2>&1 || true
for f in MANIFEST.json lean/Driver.lean lean/RigModel.lean $(git diff --name-only --diff-filter=U | grep "^evidence/"); do
  git checkout --ours -- $f 2>/dev/null || true
done
if grep -rlE "^(<<<<<<<|>>>>>>>) " --include="*.py" --include="*.lean" --include="*.json" --include="*.md" --include="*.sh" . 2>/dev/null | grep -v "^./lean/.lake" | grep -q .; then echo "CONFLICT MARKERS in:"; grep -rlE "^(<<<<<<<|>>>>>>>) " --include="*.py" --include="*.lean" --include="*.json" --include="*.md" . | grep -v "^./lean/.lake"; echo "resolve them, then run: python3 tools/mk_driver.py; python3 tools/mk_manifest.py; git add -A; git commit"; exit 1; fi
python3 tools/mk_driver.py
python3 tools/mk_manifest.py
git add -A
git status --short | grep -E "^(UU|AA|DU|UD)" && { echo "CONFLICTS remain"; exit 1; }
git commit -q -m "Merge $b" || true
if git merge-base --is-ancestor "$b" HEAD; then echo "merged $b"; else echo "MERGE FAILED for $b:"; cat /tmp/merge.log; exit 1; fi
