#!/usr/bin/env python3
"""Run the repository's pinned test command (guard OFF) and check that every
test listed as stable_pass in /root/.vp/BASELINE.json still passes."""
import json, os, subprocess, sys, tempfile, xml.etree.ElementTree as ET

def main():
    base = json.load(open("/root/.vp/BASELINE.json"))
    env = dict(os.environ)
    env.pop("RIG_VERIF", None)
    with tempfile.TemporaryDirectory(prefix="rigbase") as d:
        out = os.path.join(d, "junit.xml")
        cmd = base["cmd"].replace("<file>", out)
        subprocess.run(cmd, shell=True, env=env, stdout=subprocess.DEVNULL,
                       stderr=subprocess.DEVNULL)
        tree = ET.parse(out)
    passed = set()
    for tc in tree.iter("testcase"):
        bad = any(ch.tag in ("failure", "error", "skipped") for ch in tc)
        if not bad:
            passed.add("%s::%s" % (tc.get("classname"), tc.get("name")))
    want = set(base["stable_pass"])
    missing = sorted(want - passed)
    print("stable_pass=%d passing_now=%d missing=%d" % (len(want), len(passed), len(missing)))
    for m in missing[:20]:
        print("  MISSING", m)
    sys.exit(1 if missing else 0)

if __name__ == "__main__":
    main()
