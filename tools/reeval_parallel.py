#!/usr/bin/env python3
"""Re-run every stored seeded change against the CURRENT checks, several at a time.

Each worker uses its own copy of the framework (a git worktree of /verif with its own Lean build directory:
checks running at the same time in one tree would overwrite each other's generated model sources) and its own
scratch worktree of /repo with the patch applied (RIG_REPO).  Results go to seeded/<name>/meta.json
("final_evaluation") and to seeded/FINAL.json.

usage: reeval_parallel.py <verif-copy> [<verif-copy> ...]      (each copy must have `main` merged)
"""
import concurrent.futures
import glob
import json
import os
import queue
import subprocess
import sys

VERIF = os.path.dirname(os.path.dirname(os.path.abspath(__file__)))


def sh(cmd, cwd=None, env=None, timeout=3000):
    p = subprocess.run(cmd, shell=True, cwd=cwd, env=env, stdout=subprocess.PIPE, stderr=subprocess.STDOUT, timeout=timeout)
    return p.returncode, p.stdout.decode("utf-8", "replace")


def worker(copy, jobs, results):
    tag = os.path.basename(copy.rstrip("/"))
    scratch = "/tmp/reeval_repo_%s" % tag
    while True:
        try:
            name = jobs.get_nowait()
        except queue.Empty:
            return
        prop = name.split("-")[0]
        patch = os.path.join(VERIF, "seeded", name, "patch.diff")
        sh("git -C /repo worktree remove --force %s" % scratch)
        rc, out = sh("git -C /repo worktree add %s HEAD" % scratch)
        res = {"name": name}
        try:
            rc, out = sh("git apply %s" % patch, cwd=scratch)
            if rc != 0:
                rc, out = sh("git apply --3way %s" % patch, cwd=scratch)
            if rc != 0:
                res.update(applies=False, note=out[-300:])
            else:
                env = dict(os.environ, RIG_REPO=scratch, VERIF_SEED="0")
                crc, cout = sh("./check %s" % prop, cwd=copy, env=env, timeout=2400)
                lines = [l[:300] for l in cout.splitlines() if l.startswith(("VIOLATION", "KNOWN-FINDING", "INFRA", "NOTE"))]
                res.update(applies=True, check_exit=crc, check_lines=lines,
                           caught=crc == 1 and any(l.startswith("VIOLATION") for l in lines),
                           caught_with_concrete_input=crc == 1 and any(
                               l.startswith("VIOLATION") and "no-failing-input-found" not in l for l in lines),
                           tail=cout.splitlines()[-1][:200] if cout else "")
        except subprocess.TimeoutExpired:
            res.update(applies=True, check_exit="timeout", caught=False, caught_with_concrete_input=False)
        finally:
            sh("git -C /repo worktree remove --force %s" % scratch)
            sh("git checkout -- evidence lean/RigModel/Gen", cwd=copy)
        results.append(res)
        print(name, res.get("check_exit"), "caught" if res.get("caught") else "NOT CAUGHT",
              "" if res.get("caught_with_concrete_input") else "(no concrete input)", flush=True)


def main():
    copies = sys.argv[1:]
    names = sorted(os.path.basename(d) for d in glob.glob(os.path.join(VERIF, "seeded", "*")) if os.path.exists(os.path.join(d, "patch.diff")))
    only = os.environ.get("ONLY")
    if only:
        names = [n for n in names if n in only.split(",")]
    jobs = queue.Queue()
    for n in names:
        jobs.put(n)
    results = []
    with concurrent.futures.ThreadPoolExecutor(max_workers=len(copies)) as ex:
        list(ex.map(lambda c: worker(c, jobs, results), copies))
    heads = {"verif": sh("git -C %s log -1 --format=%%h" % VERIF)[1].strip(), "repo": sh("git -C /repo log -1 --format=%h")[1].strip()}
    for r in results:
        mp = os.path.join(VERIF, "seeded", r["name"], "meta.json")
        m = json.load(open(mp)) if os.path.exists(mp) else {}
        m["final_evaluation"] = dict({k: v for k, v in r.items() if k != "name"}, **heads)
        json.dump(m, open(mp, "w"), indent=1)
    # the summary covers every stored seed (a partial re-run with ONLY= updates its seeds only)
    allres = []
    for d in sorted(glob.glob(os.path.join(VERIF, "seeded", "*"))):
        mp = os.path.join(d, "meta.json")
        if os.path.exists(mp) and os.path.exists(os.path.join(d, "patch.diff")):
            fe = json.load(open(mp)).get("final_evaluation")
            if fe:
                allres.append(dict(fe, name=os.path.basename(d)))
    summary = {"heads": heads, "total": len(allres), "caught": sum(1 for r in allres if r.get("caught")),
               "concrete": sum(1 for r in allres if r.get("caught_with_concrete_input")),
               "patch_no_longer_applies": sorted(r["name"] for r in allres if r.get("applies") is False),
               "not_caught": sorted(r["name"] for r in allres if not r.get("caught") and r.get("applies") is not False),
               "no_concrete_input": sorted(r["name"] for r in allres if r.get("caught") and not r.get("caught_with_concrete_input"))}
    json.dump(summary, open(os.path.join(VERIF, "seeded", "FINAL.json"), "w"), indent=1)
    print(json.dumps(summary, indent=1))


if __name__ == "__main__":
    main()
