"""Differential test of the translator harness/gen/pyfun.py itself (developer tool, not part of ./check):
every second-round function is run in Python on random / edge inputs and the generated Lean definition is
`#eval`-uated on the same inputs; the printed results must agree.

    cd <framework root> && /venv/bin/python tools/pyfun_difftest.py        (RIG_REPO, SEED from the environment)

Run after changing the translator; lean/RigModel/Gen/PyFun.lean must be built (`lake build RigModel.Gen.PyFun`).
"""
import sys, random, subprocess, os, itertools, re
sys.path.insert(0, os.environ.get("RIG_REPO", "/repo"))
rng = random.Random(int(os.environ.get("SEED", "1")))
cases = []   # (lean expr, expected string)

def L(v):
    if v is None: return "none"
    if isinstance(v, bool): return "true" if v else "false"
    if isinstance(v, int): return "(%d : Int)" % v if v >= 0 else "(-%d : Int)" % -v
    if isinstance(v, tuple): return "(" + ", ".join(L(x) for x in v) + ")"
    if isinstance(v, list): return "[" + ", ".join(L(x) for x in v) + "]"
    raise TypeError(v)

def show(v):
    """how Lean's Repr prints the value (normalised by stripping spaces)"""
    if isinstance(v, bool): return "true" if v else "false"
    if isinstance(v, int): return str(v)
    if isinstance(v, tuple): return "(" + ",".join(show(x) for x in v) + ")"
    if isinstance(v, list): return "[" + ",".join(show(x) for x in v) + "]"
    raise TypeError(v)

def exc(f):
    try:
        return "Except.ok" + " " + show(f())
    except Exception as e:
        return 'Except.error "%s"' % type(e).__name__

from rig import geometry
from rig.links import Links
from rig.routing_table.utils import get_common_xs
from rig.routing_table import RoutingTableEntry
from rig.machine_control.scp_connection import seqs
from rig.machine_control.machine_controller import SlicedMemoryIO, MachineController

def add(expr, expected):
    cases.append((expr, expected))

for l in range(-1, 8):
    def f():
        return tuple(int(x) for x in Links(l).to_vector()) if 0 <= l < 6 else Links.to_vector(l)
    add("Links_to_vector %s" % L(l), exc(f))
for _ in range(30):
    a = tuple(rng.randint(-9, 9) for _ in range(3)); b = tuple(rng.randint(-9, 9) for _ in range(3))
    add("shortest_mesh_path %s %s" % (L(a), L(b)), show(tuple(geometry.shortest_mesh_path(a, b))))
for r in [-2, -1, 0, 1, 2, 3]:
    st = (rng.randint(-5, 5), rng.randint(-5, 5))
    add("concentric_hexagons %s %s" % (L(r), L(st)), show(list(geometry.concentric_hexagons(r, st))))
for n in list(range(-7, 40)) + [3 * rng.randint(1, 3000) for _ in range(20)] + [rng.randint(1, 3000) for _ in range(10)]:
    add("standard_system_dimensions %s" % L(n), exc(lambda: geometry.standard_system_dimensions(n)))
for _ in range(40):
    w, h = rng.randint(-3, 50), rng.randint(-3, 50)
    rx, ry = rng.randint(-15, 30), rng.randint(-15, 30)
    if (w + 11) // 12 == 0 or (h + 11) // 12 == 0:
        if w > 0 and h > 0: continue
    try:
        r = list(geometry.spinn5_eth_coords(w, h, rx, ry))
    except ZeroDivisionError:
        continue
    add("spinn5_eth_coords %s %s %s %s" % (L(w), L(h), L(rx), L(ry)), show(r))
for _ in range(20):
    es = [(rng.getrandbits(32), rng.getrandbits(32)) for _ in range(rng.randint(0, 4))]
    add("get_common_xs %s" % L(es), show(get_common_xs([RoutingTableEntry(set(), k, m) for k, m in es])))
from rig.routing_table.ordered_covering import _get_insertion_index
for _ in range(60):
    n = rng.randint(0, 7)
    # tables in ascending generality (the documented domain) and arbitrary ones
    es = [(0, (0xFFFFFFFF >> rng.randint(0, 6)) << rng.randint(0, 3) & 0xFFFFFFFF) for _ in range(n)]
    if rng.random() < 0.7:
        es.sort(key=lambda km: bin(~km[0] & ~km[1] & 0xFFFFFFFF).count("1"))
    g = rng.randint(-1, 9)
    add("get_insertion_index %s %s %d" % (L(es), L(g), n + 1),
        exc(lambda: _get_insertion_index([RoutingTableEntry(set(), k, m) for k, m in es], g)))
for mask in [0, 1, 3, 7, 0xffff, 5, 6]:
    n = rng.randint(0, 20)
    add("seqs %s %d" % (L(mask), n), show(list(itertools.islice(seqs(mask), n))))

class Rec(MachineController):
    def __init__(self):
        self.calls = []
    def _send_scp(self, *args):
        self.calls.append(tuple(int(a) for a in args))
for _ in range(10):
    a, b, c, d = [rng.getrandbits(rng.choice([4, 8, 20, 32])) for _ in range(4)]
    m = Rec(); m._send_ffs(a, b, c); add("MachineController_send_ffs %s %s %s" % (L(a), L(b), L(c)), show(m.calls))
    m = Rec(); m._send_ffcs(a, b, c); add("MachineController_send_ffcs %s %s %s" % (L(a), L(b), L(c)), show(m.calls))
    m = Rec(); m._send_ffe(a, b, c, d); add("MachineController_send_ffe %s %s %s %s" % (L(a), L(b), L(c), L(d)), show(m.calls))

class Rec8(MachineController):
    def __init__(self, buf):
        self.calls = []
        self._scp_data_length = buf
    def _send_scp(self, *args):
        self.calls.append(tuple(int(a) for a in args[:-1]) + ([int(b) for b in bytearray(args[-1])],))
for _ in range(25):
    buf = rng.choice([1, 3, 4, 4, 8, 8, 12, 5])
    data = bytes(rng.getrandbits(8) for _ in range(rng.choice([0, 4, 8, 12, 16, 20, 7, 3])))
    pid, addr = rng.randint(0, 255), rng.getrandbits(28)
    m = Rec8(buf)
    def h():
        m._send_ffd(pid, data, addr); return m.calls
    add("MachineController_send_ffd %s %s %s %s %d" % (L(buf), L(pid), L([int(b) for b in bytearray(data)]), L(addr), len(data) + 1), exc(h))

# ---- third round -------------------------------------------------------------------------------------
from rig.machine_control.scp_connection import SCPConnection
class RecKw(MachineController):
    def __init__(self, buf):
        self.calls = []
        self._scp_data_length = buf
    def _send_scp(self, *args, **kw):
        self.calls.append(tuple(int(a) for a in args) + (int(kw["arg1"]), int(kw["arg2"]), int(kw["arg3"]),
                          [int(b) for b in bytearray(kw["data"])], int(kw["expected_args"])))
for _ in range(25):
    buf = rng.choice([4, 5, 7, 8, 9, 16, 256])
    data = bytes(rng.getrandbits(8) for _ in range(rng.choice([0, 4, 8, 12, 16, 20, 7, 3, 40])))
    addr, x, y, link = rng.choice([0, 4, 8, 1024, 6, 1]), rng.randint(0, 7), rng.randint(0, 7), rng.randint(0, 5)
    m = RecKw(buf)
    def h():
        MachineController.write_across_link.__wrapped__(m, addr, data, x, y, link) if hasattr(MachineController.write_across_link, "__wrapped__") else m.write_across_link(addr, data, x, y, link)
        return m.calls
    add("MachineController_write_across_link %s %s %s %s %s %s %d" % (L(buf), L(addr), L([int(b) for b in bytearray(data)]), L(x), L(y), L(link), len(data) + 1), exc(h))
for _ in range(30):
    buf = rng.choice([1, 2, 3, 4, 5, 8, 16, 256])
    n = rng.choice([0, 1, 2, 3, 4, 5, 8, 9, 17, 33])
    addr, x, y, p = rng.randint(0, 70), rng.randint(0, 7), rng.randint(0, 7), rng.randint(0, 17)
    conn = SCPConnection.__new__(SCPConnection)
    got = []
    conn.send_scp_burst = lambda bs, ws, calls: got.extend(calls)
    data = bytes(rng.getrandbits(8) for _ in range(n))
    def hw():
        del got[:]; conn.write(buf, 1, x, y, p, addr, data)
        return [(c.x, c.y, c.p, int(c.cmd), c.arg1, c.arg2, int(c.arg3), [int(b) for b in bytearray(c.data)]) for c in got]
    add("SCPConnection_write_packets %s %s %s %s %s %s %d" % (L(addr), L([int(b) for b in bytearray(data)]), L(buf), L(x), L(y), L(p), n + 1), exc(hw))
    def hr():
        del got[:]; conn.read(buf, 1, x, y, p, addr, n)
        return [(c.x, c.y, c.p, int(c.cmd), c.arg1, c.arg2, int(c.arg3)) for c in got]
    add("SCPConnection_read_packets %s %s %s %s %s %s %d" % (L(n), L(buf), L(x), L(y), L(p), L(addr), n + 1), exc(hr))

class Parent(object):
    _freed = False
def mk(s, e, off):
    v = SlicedMemoryIO(Parent(), s, e); v._offset = off
    return v
def st(v):
    return (v._start_address, v._end_address, v._offset)
def O(x):
    return "none" if x is None else "(some %s)" % L(x)
for _ in range(40):
    s, e, off = rng.randint(-5, 30), rng.randint(-5, 30), rng.randint(-10, 40)
    v = SlicedMemoryIO(Parent(), s, e)
    add("SlicedMemoryIO_init 7 8 9 true %s %s" % (L(s), L(e)), show(st(v) + (v.closed,)))
    s, e = v._start_address, v._end_address
    args = "%s %s %s" % (L(s), L(e), L(off))
    v = mk(s, e, off); add("SlicedMemoryIO_len " + args, show((len(v) if len(v) >= 0 else None,) + st(v)) if s <= e else "")
    v = mk(s, e, off); add("SlicedMemoryIO_address " + args, show((v.address,) + st(v)))
    v = mk(s, e, off); add("SlicedMemoryIO_tell " + args, show((v.tell(),) + st(v)))
    v = mk(s, e, off); add("SlicedMemoryIO_bytes_available " + args, show((v._bytes_available(),) + st(v)))
    n, wh = rng.randint(-10, 40), rng.choice([0, 1, 2, 3, -1])
    v = mk(s, e, off)
    def f():
        v.seek(n, wh); return st(v)
    add("SlicedMemoryIO_seek %s %s %s" % (args, L(n), L(wh)), exc(f))
    a, b, c = [rng.choice([None, rng.randint(-40, 40)]) for _ in range(2)] + [rng.choice([None, 1, 1, 2, -1])]
    v = mk(s, e, off)
    def g():
        w = v[slice(a, b, c)]; return ((w._start_address, w._end_address),) + st(v)   # NB after the constructor's clipping
    add("(fun r => match r with | Except.ok ((a, b), t) => Except.ok ((a, max a b), t) | Except.error e => Except.error e) (SlicedMemoryIO_getitem %s (%s, %s, %s))" % (args, O(a), O(b), O(c)), exc(g))

from rig.utils.contexts import ContextMixin
class RecSig(MachineController):
    def __init__(self):
        ContextMixin.__init__(self, {})
        self.calls = []
    def _send_scp(self, *args):
        self.calls.append(tuple(int(a) for a in args))
        class R(object):
            arg1 = 5
        return R()
for sig in list(range(-2, 18)) + [255]:
    app = rng.randint(0, 255)
    m = RecSig()
    def hs():
        m.send_signal(sig, app); return m.calls
    add("MachineController_send_signal %s %s" % (L(sig), L(app)), exc(hs))
    m2 = RecSig()
    def hc():
        m2.count_cores_in_state(sig, app); return m2.calls
    add("MachineController_count_cores_in_state %s %s" % (L(sig), L(app)), exc(hc))
def EV(evs):
    return "[" + ",".join('{name:="%s",ints:=%s,bytes:=%s}' % (n, show(i), show(b)) for n, i, b in evs) + "]"
from rig.machine_control.packets import SDPPacket, SCPPacket, _unpack_sdp_into_packet
def B(v): return "true" if v else "false"
def exc_(f):
    try:
        return "Except.ok" + " " + f()
    except Exception as e:
        n = type(e).__name__
        return 'Except.error "%s"' % ("struct.error" if n == "error" else n)
def sdp_args(p): return " ".join([B(p.reply_expected)] + [L(getattr(p, a)) for a in ("tag", "dest_port", "dest_cpu", "src_port", "src_cpu", "dest_x", "dest_y", "src_x", "src_y")] + [L([int(b) for b in bytearray(p.data)])])
def sdp_state(p): return [B(p.reply_expected)] + [show(getattr(p, a)) for a in ("tag", "dest_port", "dest_cpu", "src_port", "src_cpu", "dest_x", "dest_y", "src_x", "src_y")] + [show([int(b) for b in bytearray(p.data)])]
def OI(x): return "none" if x is None else "(some %s)" % L(x)
def SO(x): return "none" if x is None else "some" + show(x)
for _ in range(40):
    r8 = lambda: rng.choice([0, 1, 7, 31, 255, 255, 256, 300, rng.randint(0, 255)])
    kw = dict(reply_expected=rng.random() < 0.5, tag=r8(), dest_port=rng.randint(0, 9), dest_cpu=rng.randint(0, 40), src_port=rng.randint(0, 9),
              src_cpu=rng.randint(0, 40), dest_x=r8(), dest_y=r8(), src_x=r8(), src_y=r8(), data=bytes(bytearray(rng.getrandbits(8) for _ in range(rng.randint(0, 5)))))
    p = SDPPacket(**kw)
    add("SDPPacket_bytestring " + sdp_args(p), exc_(lambda: "(" + ",".join([show([int(b) for b in bytearray(p.bytestring)])] + sdp_state(p)) + ")"))
    r32 = lambda: rng.choice([None, 0, 1, 2**32 - 1, 2**32, rng.getrandbits(32)])
    q = SCPPacket(cmd_rc=rng.choice([0, 3, 65535, 65536]), seq=rng.choice([0, 9, 65535, 70000]), arg1=r32(), arg2=r32(), arg3=r32(), **kw)
    scp_args = sdp_args(q) + " %s %s %s %s %s" % (L(q.cmd_rc), L(q.seq), OI(q.arg1), OI(q.arg2), OI(q.arg3))
    scp_state = sdp_state(q) + [show(q.cmd_rc), show(q.seq), SO(q.arg1), SO(q.arg2), SO(q.arg3)]
    add("SCPPacket_packed_data " + scp_args, exc_(lambda: "(" + ",".join([show([int(b) for b in bytearray(q.packed_data)])] + scp_state) + ")"))
    add("SCPPacket_bytestring " + scp_args, exc_(lambda: "(" + ",".join([show([int(b) for b in bytearray(q.bytestring)])] + scp_state) + ")"))
    bs = bytes(bytearray(rng.getrandbits(8) for _ in range(rng.choice([0, 5, 9, 10, 11, 14, 20]))))
    t = SDPPacket()
    def hu():
        _unpack_sdp_into_packet(t, bs); return "(" + ",".join(sdp_state(t)) + ")"
    add("unpack_sdp_into_packet " + sdp_args(p) + " " + L([int(b) for b in bytearray(bs)]), exc_(hu))
for _ in range(60):
    bs = bytes(bytearray(rng.getrandbits(8) for _ in range(rng.choice([0, 9, 10, 12, 13, 14, 17, 18, 21, 22, 25, 26, 30]))))
    n_args = rng.choice([0, 1, 2, 3, 3, 4, -1])
    init = SCPPacket()
    def hf():
        q = SCPPacket.from_bytestring(bs, n_args)
        return "(" + ",".join(sdp_state(q) + [show(q.cmd_rc), show(q.seq), SO(q.arg1), SO(q.arg2), SO(q.arg3)]) + ")"
    add("SCPPacket_from_bytestring false 255 0 0 7 31 0 0 0 0 [] 0 0 none none none %s %s" % (L([int(b) for b in bytearray(bs)]), L(n_args)), exc_(hf))
    def hg():
        q = SDPPacket.from_bytestring(bs)
        return "(" + ",".join(sdp_state(q)) + ")"
    add("SDPPacket_from_bytestring false 255 0 0 7 31 0 0 0 0 [] %s" % L([int(b) for b in bytearray(bs)]), exc_(hg))
class RecFill(MachineController):
    def __init__(self):
        ContextMixin.__init__(self, {})
        self.ev = []
    def _send_scp(self, *args): self.ev.append(("_send_scp", [int(a) for a in args], []))
    def write(self, address, data, x, y, p=0): self.ev.append(("write", [address, x, y, p], [int(b) for b in bytearray(data)]))
for _ in range(30):
    addr, dat, size = rng.choice([0, 4, 8, 5, 6]), rng.choice([0, 1, 255, 256, 300, 0xdeadbeef]), rng.choice([0, 4, 8, 3, 5, 12])
    x, y, pp = rng.randint(0, 7), rng.randint(0, 7), rng.randint(0, 17)
    m = RecFill()
    def hfill():
        m.fill(addr, dat, size, x, y, pp); return EV(m.ev)
    add("MachineController_fill %s %s %s %s %s %s" % (L(addr), L(dat), L(size), L(x), L(y), L(pp)), exc_(hfill))
# ---- fourth round -------------------------------------------------------------------------------------
from rig.place_and_route.place import utils as _pu
from rig.place_and_route.constraints import ReserveResourceConstraint as _RRC
def D(d): return L(list(d.items()))
for _ in range(40):
    ks = rng.sample(range(10), rng.randint(0, 5))
    da = dict((k, rng.randint(-5, 20)) for k in ks)
    db = dict((k, rng.randint(-5, 20)) for k in rng.sample(range(10), rng.randint(0, 5)))
    add("add_resources %s %s" % (D(da), D(db)), show(list(_pu.add_resources(da, db).items())))
    add("subtract_resources %s %s" % (D(da), D(db)), show(list(_pu.subtract_resources(da, db).items())))
    add("overallocated %s" % D(da), show(bool(_pu.overallocated(da))))
    k, a, b = rng.randint(0, 9), rng.randint(0, 5), rng.randint(0, 9)
    add("resources_after_reservation %s %s" % (D(da), L((k, a, b))),
        exc_(lambda: show(list(_pu.resources_after_reservation(da, _RRC(k, slice(a, b))).items()))))
import math as _math
from fractions import Fraction as _Fr
from rig import type_casts as _tc
from rig.place_and_route import Machine as _Machine
from rig.links import Links as _Links
for _ in range(60):
    w, h = rng.randint(0, 4), rng.randint(0, 4)
    dc = set((rng.randint(0, 4), rng.randint(0, 4)) for _ in range(rng.randint(0, 3)))
    dl = set((rng.randint(0, 4), rng.randint(0, 4), _Links(rng.randint(0, 5))) for _ in range(rng.randint(0, 4)))
    mach = _Machine(w, h, dead_chips=dc, dead_links=dl)
    margs = "%s %s %s %s" % (L(w), L(h), L(sorted(dc)), L(sorted((a, b, int(c)) for a, b, c in dl)))
    x, y, l = rng.randint(-1, 5), rng.randint(-1, 5), rng.randint(0, 5)
    add("(Machine_contains_chip %s %s).1" % (margs, L((x, y))), show((x, y) in mach))
    add("(Machine_contains_link %s %s).1" % (margs, L((x, y, l))), show((x, y, _Links(l)) in mach))
from rig.bitfield import BitField as _BF
for _ in range(60):
    Lb = rng.choice([4, 8, 16, 32])
    flen, fstart = rng.choice([None, None, 1, 3, 8, 0]), rng.choice([None, None, 0, 2, 5, 30])
    mv = rng.choice([1, 2, 3, 7, 8, 255, 256, 2 ** 20 + 5])
    assigned = rng.getrandbits(Lb) & rng.getrandbits(Lb)
    bf = _BF(Lb)
    bf.add_field("f")
    fld = bf.fields.get_field("f", {})
    fld.length, fld.start_at, fld.max_value = flen, fstart, mv
    def haf():
        r = bf._assign_field(assigned, "f", {})
        return show((r,)).rstrip(")").rstrip(",") + "," + SO(fld.length) + "," + SO(fld.start_at) + "," + show(fld.max_value) + ")"
    add("BitField_assign_field (Rig.C08.logOps false) %s %s %s %s %s" % (OI(flen), OI(fstart), L(mv), L(Lb), L(assigned)), exc_(haf))
for signed in (False, True):
    for bits in (0, 7, 8, 16, 32, 64, 65):
        frac = rng.randint(-3, 40)
        def hnp():
            c = _tc.NumpyFloatToFixConverter(signed, bits, frac)
            return show((int(c.max_value), int(c.min_value), int(c.n_frac)))
        add("NumpyFloatToFixConverter_init 1 2 3 %s %s %s" % (B(signed), L(bits), L(frac)), exc_(hnp))
FRAC = "(fun (r : Rig.C16.FV) => match r with | Rig.C16.FV.val (Rig.C16.FloatR.fin d) => (let n : Int := if 0 ≤ d.e then d.m * 2 ^ d.e.toNat else d.m; let q : Int := if 0 ≤ d.e then 1 else 2 ^ (-d.e).toNat; let g : Int := ((Int.gcd n q : Nat) : Int); (n / g, q / g)) | _ => ((0 : Int), (0 : Int)))"
for _ in range(60):
    signed, bits, frac = rng.random() < 0.5, rng.choice([1, 8, 16, 32, 64]), rng.choice([-3, 0, 4, 15, 16, 31, 100, 1030])
    m, e = rng.choice([0, 1, -1, 3, -5, rng.getrandbits(53), -rng.getrandbits(53), rng.getrandbits(20)]), rng.choice([-60, -20, -4, 0, 3, 40, 900])
    x = _math.ldexp(float(m), e)
    if _math.isinf(x):
        continue
    add("float_to_fp Rig.C16.dyOps %s %s %s (Rig.C16.FV.val (Rig.C16.FloatR.fin ⟨%d, %d⟩))" % (B(signed), L(bits), L(frac), m, e),
        exc_(lambda: show(_tc.float_to_fp(signed, bits, frac)(x))))
    k = rng.choice([0, 1, -7, rng.getrandbits(30), -rng.getrandbits(60), rng.getrandbits(70), 10 ** 320])
    def hk():
        r = _tc.fp_to_float(frac)(k)
        fr = _Fr(r)
        return show((fr.numerator, fr.denominator))
    add("(PyFun.fp_to_float Rig.C16.dyOps %s %s).map %s" % (L(frac), L(k), FRAC), exc_(hk))
from rig.place_and_route.utils import _get_minimal_core_reservations
for _ in range(40):
    cs = sorted(rng.sample(range(20), rng.randint(0, 8))) if rng.random() < 0.8 else [rng.randint(0, 6) for _ in range(rng.randint(0, 6))]
    add("get_minimal_core_reservations %s" % L(cs), show([(c.reservation.start, c.reservation.stop) for c in _get_minimal_core_reservations("cores", cs, (1, 2))]))
from rig.machine_control.machine_controller import unpack_routing_table_entry
for _ in range(40):
    n = rng.choice([16, 16, 16, 16, 15, 17, 0])
    bs = bytearray(rng.getrandbits(8) for _ in range(n))
    if n == 16 and rng.random() < 0.3:
        bs[7] = 0xff
    def hu2():
        r = unpack_routing_table_entry(bytes(bs))
        if r is None:
            return "none"
        rte, app, core = r
        return "(some" + show(((sorted(int(x) for x in rte.route), rte.key, rte.mask), app, core)) + ")"
    add("unpack_routing_table_entry %s" % L([int(b) for b in bs]), exc_(hu2))
from rig.machine_control import boot as _boot
class Sock(object):
    def __init__(self): self.sent = []
    def send(self, b): self.sent.append(("send", [], [int(x) for x in bytearray(b)]))
for _ in range(30):
    vals = [rng.choice([0, 1, 3, 2**32 - 1, 2**32, -1, rng.getrandbits(32)]) for _ in range(4)]
    data = bytes(bytearray(rng.getrandbits(8) for _ in range(rng.choice([0, 4, 8, 12, 3, 6]))))
    sk = Sock()
    def hb():
        _boot.boot_packet(sk, vals[0], vals[1], vals[2], vals[3], data); return EV(sk.sent)
    add("boot_packet %s %s %s %s %s %d" % (L(vals[0]), L(vals[1]), L(vals[2]), L(vals[3]), L([int(b) for b in bytearray(data)]), len(data) // 4 + 1), exc_(hb))
import warnings as _w
class PRec(object):
    _freed = False
    def __init__(self): self.ev = []
    def _perform_read(self, a, n): self.ev.append(("_perform_read", [a, n], [])); return b"\x07" * 3
    def _perform_write(self, a, d): self.ev.append(("_perform_write", [a], [int(b) for b in bytearray(d)]))
for _ in range(60):
    s_, e_, off = rng.randint(0, 30), rng.randint(0, 40), rng.randint(-5, 45)
    par = PRec(); v = SlicedMemoryIO(par, s_, e_); v._offset = off
    args = "%s %s %s" % (L(v._start_address), L(v._end_address), L(off))
    if rng.random() < 0.5:
        n = rng.randint(-3, 50)
        with _w.catch_warnings(record=True) as wl:
            _w.simplefilter("always")
            r = v.read(n)
        evs = ([("warn", [], [])] if wl else []) + par.ev
        add("SlicedMemoryIO_read %s %s [7, 7, 7]" % (args, L(n)),
            "(" + ",".join([show([int(b) for b in bytearray(r)])] + [show(x) for x in st(v)] + [EV(evs)]) + ")")
    else:
        d = [rng.getrandbits(8) for _ in range(rng.randint(0, 12))]
        with _w.catch_warnings(record=True) as wl:
            _w.simplefilter("always")
            r = v.write(bytes(bytearray(d)))
        evs = ([("warn", [], [])] if wl else []) + par.ev
        add("SlicedMemoryIO_write %s %s" % (args, L(d)), "(" + ",".join([show(r)] + [show(x) for x in st(v)] + [EV(evs)]) + ")")

# ---- fifth round: structured types (allocate: dicts of dicts, defaultdicts, typed constraint records, Machine as env) ----
from rig.place_and_route.allocate.greedy import allocate as _allocate
from rig.place_and_route.machine import Machine as _Machine
from rig.place_and_route.constraints import (ReserveResourceConstraint as _RRC, AlignResourceConstraint as _ARC,
                                             LocationConstraint as _LC)
def LN(v): return str(v)                                    # a key (Nat)
def Lsl(a, b): return "(%s, %s)" % (L(a), L(b))
def Lres(d): return "[" + ", ".join("(%s, %s)" % (LN(k), L(v)) for k, v in d.items()) + "]"
for _ in range(150):
    w, h = rng.randint(1, 3), rng.randint(1, 2)
    nres = rng.randint(1, 3)
    chip_res = dict((r, rng.randint(0, 24)) for r in range(nres))
    exc_chips = {}
    for _e in range(rng.randint(0, 2)):
        xy = (rng.randrange(w), rng.randrange(h))
        exc_chips[xy] = dict((r, rng.randint(0, 24)) for r in range(nres) if rng.random() < 0.9)
    dead = set((rng.randrange(w), rng.randrange(h)) for _d in range(rng.choice([0, 0, 0, 1])))
    m = _Machine(w, h, chip_resources=dict(chip_res), chip_resource_exceptions=dict(exc_chips), dead_chips=set(dead))
    nv = rng.randint(0, 5)
    vr = {}
    for v in range(nv):
        rs = list(range(nres + (rng.random() < 0.05)))
        rng.shuffle(rs)
        vr[v] = dict((r, rng.choice([0, 0, 1, 2, 3, 5, 8])) for r in rs if rng.random() < 0.85)
    pl = {}
    order = list(range(nv)); rng.shuffle(order)
    for v in order:
        pl[v] = (rng.randrange(w + (rng.random() < 0.03)), rng.randrange(h))
    if rng.random() < 0.05 and nv:
        vr.pop(rng.randrange(nv), None)
    cs, lcs = [], []
    for _c in range(rng.randint(0, 5)):
        k = rng.random()
        r = rng.randrange(nres)
        if k < 0.55:
            a = rng.randint(-1, 12); b = a + rng.choice([0, 1, 2, 3, -1, 6])
            loc = None if rng.random() < 0.5 else (rng.randrange(w), rng.randrange(h))
            cs.append(_RRC(r, slice(a, b), loc))
            lcs.append("(allocate_constraints_elem.ReserveResourceConstraint %s %s %s)" % (
                LN(r), Lsl(a, b), "none" if loc is None else "(some %s)" % L(loc)))
        elif k < 0.85:
            a = rng.choice([1, 2, 3, 4, 8])
            cs.append(_ARC(r, a)); lcs.append("(allocate_constraints_elem.AlignResourceConstraint %s %s)" % (LN(r), L(a)))
        else:
            cs.append(_LC(0, (0, 0))); lcs.append("allocate_constraints_elem.other")
    table = []
    for x in range(w):
        for y in range(h):
            if (x, y) in m:
                table.append("(%s, %s)" % (L((x, y)), Lres(m[(x, y)])))
    getitem = ("(fun (xy : Int × Int) => match ([%s] : List ((Int × Int) × List (Nat × Int))).lookup xy with "
               "| some r => Except.ok r | none => Except.error \"IndexError\")" % ", ".join(table))
    def ha():
        out = _allocate(vr, [], m, cs, pl)
        return "[" + ",".join("(%s,[%s])" % (v, ",".join("(%s,some(%d,%d))" % (r, s.start, s.stop) for r, s in va.items()))
                              for v, va in out.items()) + "]"
    try:
        want = "Except.ok " + ha()
    except Exception as e:
        want = 'Except.error "%s"' % type(e).__name__
    add("allocate [%s] %s %s [%s] [%s] 64" % (
        ", ".join("(%s, %s)" % (LN(v), Lres(rs)) for v, rs in vr.items()), Lres(chip_res), getitem, ", ".join(lcs),
        ", ".join("(%s, %s)" % (LN(v), L(xy)) for v, xy in pl.items())), want)


# ---- sixth round: the `do`-subset (harness/gen/pydo.py -> Gen/PyFunTables.lean): routing_tree_to_tables ----
from rig.routing_table.utils import routing_tree_to_tables as _rttt
from rig.routing_table import Routes as _Routes
from collections import OrderedDict as _OD
class _FakeTree(object):
    """an object whose traverse() yields the given items (the traversal itself is modelled by hand)"""
    def __init__(self, items): self.items = items
    def traverse(self): return iter([(d, xy, set(o)) for d, xy, o in self.items])
def _lopt(d): return "none" if d is None else "(some %d)" % int(d)
_CANON = ("(fun (t : List ((Nat × Nat) × List (List Nat × Nat × Nat × List (Option Nat)))) => t.map (fun ct => (ct.1, ct.2.map "
          "(fun e => (e.1.mergeSort (fun a b => decide (a ≤ b)), e.2.1, e.2.2.1, (e.2.2.2.map (fun (o : Option Nat) => match o with "
          "| none => 0 | some r => r + 1)).mergeSort (fun a b => decide (a ≤ b)))))))")
for _ in range(150):
    nn = rng.randint(0, 4)
    pool = [(rng.randint(0, 2), rng.choice([15, 255])) for _k in range(rng.randint(1, 2))]
    routes, net_keys, lroutes = _OD(), {}, []
    shared = [sorted(rng.sample(range(0, 9), rng.randint(0, 3))) for _k in range(3)]
    for net in rng.sample(range(10), nn):
        items = []
        for _i in range(rng.randint(0, 5)):
            d = None if rng.random() < 0.35 else _Routes(rng.choice([0, 1, 2, 3, 4, 5] * 6 + [7]))
            xy = (rng.randint(0, 1), rng.randint(0, 1))
            outs = rng.choice(shared) if rng.random() < 0.8 else sorted(rng.sample(range(0, 9), rng.randint(0, 3)))
            items.append((d, xy, [_Routes(o) for o in outs]))
        routes[net] = _FakeTree(items)
        if rng.random() < 0.97:
            net_keys[net] = rng.choice(pool)
        lroutes.append("(%d, [%s])" % (net, ", ".join("(%s, (%d, %d), [%s])" % (
            _lopt(d), xy[0], xy[1], ", ".join(str(int(o)) for o in outs)) for d, xy, outs in items)))
    def hr():
        out = _rttt(routes, net_keys)
        return "[" + ",".join("((%d,%d),[%s])" % (xy[0], xy[1], ",".join(
            "([%s],%d,%d,[%s])" % (",".join(str(int(r)) for r in sorted(e.route)), e.key, e.mask,
                                  ",".join(str(v) for v in sorted(0 if q is None else int(q) + 1 for q in e.sources)))
            for e in es)) for xy, es in out.items()) + "]"
    try:
        want = "Except.ok " + hr()
    except Exception as e:
        a = [e.key, e.mask, e.x, e.y] if type(e).__name__ == "MultisourceRouteError" else []
        want = 'Except.error ("%s",[%s])' % (type(e).__name__, ",".join(str(int(x)) for x in a))
    add("(routing_tree_to_tables [%s] [%s]).map %s" % (
        ", ".join(lroutes), ", ".join("(%d, (%d, %d))" % (n, k, m) for n, (k, m) in net_keys.items()), _CANON), want)

cases = [c for c in cases if c[1] != ""]
src = "import RigModel.Gen.PyFun\nimport RigModel.Gen.PyFunTables\nimport RigModel.Props.C16Gen\nimport RigModel.Props.C08Gen\nopen Rig.Gen Rig.Gen.PyFun\n" + "".join("#eval %s\n" % c[0] for c in cases)
HERE = os.path.dirname(os.path.dirname(os.path.abspath(__file__)))
TMP = os.path.join(HERE, "lean", ".lake", "DiffTest.lean")
open(TMP, "w").write(src)
out = subprocess.run(["lake", "env", "lean", TMP], cwd=os.path.join(HERE, "lean"), capture_output=True, text=True).stdout
# one (possibly multi-line) output per #eval: join and split heuristically by re-running per case is slow; use markers
got = []
cur = ""
for line in out.splitlines():
    cur += line.strip()
    # an output is complete when brackets balance
    if cur.count("(") == cur.count(")") and cur.count("[") == cur.count("]"):
        got.append(cur); cur = ""
bad = 0
if len(got) != len(cases):
    print("count mismatch", len(got), len(cases)); print(out[:3000])
for (ex, want), g in zip(cases, got):
    g = g.replace("some ", "some")
    g = re.sub(r"Except\.ok \((-\d+)\)$", r"Except.ok \1", g)
    g2 = g.replace(" ", "").replace("Except.ok", "Except.ok ").replace("Except.error", "Except.error ")
    w2 = want.replace(" ", "").replace("Except.ok", "Except.ok ").replace("Except.error", "Except.error ")
    if g2 != w2:
        bad += 1
        if bad < 15: print("DIFF", ex, "\n   lean:", g, "\n   py  :", want)
print("cases", len(cases), "bad", bad)
sys.exit(1 if bad or len(got) != len(cases) else 0)
