#!/bin/sh
# Re-run every claimed check (quick tier) on the unchanged tree and validate the evidence files.
cd "$(dirname "$0")/.."
fail=0
for p in $(python3 -c "import json; print(' '.join(c['property_id'] for c in json.load(open('MANIFEST.json'))['checks']))"); do
  out=$(VERIF_SEED=${VERIF_SEED:-0} ./check $p --tier quick 2>&1 | tail -1)
  echo "$out"
  case "$out" in *"-> OK"*) ;; *) fail=1;; esac
done
python3-vt - <<'PY'
import json, jsonschema, glob
sch=json.load(open('/root/.vp/EVIDENCE.schema.json'))
for f in sorted(glob.glob('evidence/*.json')):
    e=json.load(open(f)); jsonschema.validate(e, sch)
    c=e['coverage']; assert c['obligations']==c['discharged'], f
    assert e.get('violations',0)==0, f
print("evidence valid:", len(glob.glob('evidence/*.json')))
jsonschema.validate(json.load(open('MANIFEST.json')), json.load(open('/root/.vp/MANIFEST.schema.json')))
print("manifest valid")
PY
exit $fail
