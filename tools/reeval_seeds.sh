#!/bin/sh
# Re-run every stored seeded change against the current checks (patch applied to /repo for the
# duration of one check run, then undone).  Prints one line per seed.
cd "$(dirname "$0")/.."
for d in seeded/*/; do
  n=$(basename $d); p=${n%%-*}
  r=$(python3 tools/seed_eval.py $p $d $n "$@" 2>&1 | grep -E "^check exit|NOT CONF|does not apply" | head -1)
  c=$(python3 -c "import json; m=json.load(open('$d/meta.json')); print('caught' if m.get('caught') else 'MISSED', 'concrete' if m.get('caught_with_concrete_input') else 'no-input')")
  echo "$n: $r $c"
done
