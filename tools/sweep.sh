#!/bin/sh
# Clean-tree sweep: every check's quick command with several seeds; prints one line per run.
# usage: tools/sweep.sh "1 2 3" [quick|thorough] [jobs]      (run ./setup.sh first in a fresh snapshot)
cd "$(dirname "$0")/.."
seeds=${1:-"1 2 3"}; tier=${2:-quick}; jobs=${3:-3}
mkdir -p /tmp/sweep_logs
for s in $seeds; do for i in 01 02 03 04 05 06 07 08 09 10 11 12 13 14 15 16 17 18 19 20; do echo "$s C$i"; done; done | \
  xargs -P$jobs -L1 sh -c 'VERIF_SEED=$0 ./check $1 --tier '$tier' > /tmp/sweep_logs/$1_$0.log 2>&1; echo "seed=$0 $1 exit=$? $(tail -1 /tmp/sweep_logs/$1_$0.log | cut -c1-160)"'
