#!/usr/bin/env python3
"""Regenerate MANIFEST.json from the per-property table below (one source of
truth; run after adding a property).  A property is claimed iff it has an
entry in CLAIMS and a harness module."""
import json
import os

HERE = os.path.dirname(os.path.dirname(os.path.abspath(__file__)))

COMMON_NOTE = ("Trusted: Lean 4.33 kernel; axioms propext/Classical.choice/Quot.sound only (audited every run, "
               "no native_decide/bv_decide/sorry); the translator harness/gen_tables.py; the correspondence harness "
               "and driver; CPython semantics of the transliterated constructs. The theorems are about the hand-written "
               "Lean model; the tie to /repo is the differential correspondence run on every invocation plus the Lean "
               "specification predicate evaluated on the implementation's own outputs.")

def load_claims():
    import importlib, sys
    sys.path.insert(0, HERE)
    out = {}
    for f in sorted(os.listdir(os.path.join(HERE, "harness"))):
        mm = __import__("re").match(r"(c\d\d)\.py$", f)
        if mm:
            mod = importlib.import_module("harness." + mm.group(1))
            if getattr(mod, "CLAIM", None):
                out[mm.group(1).upper()] = mod.CLAIM
    return out


NOT_YET = {}


def main():
    CLAIMS = load_claims()
    props = [json.loads(l) for l in open(os.path.join(HERE, "properties.jsonl"))]
    checks, na = [], []
    for p in props:
        pid = p["id"]
        c = CLAIMS.get(pid)
        if c and os.path.exists(os.path.join(HERE, "harness", pid.lower() + ".py")):
            checks.append({
                "property_id": pid,
                "quick_cmd": "./check %s --tier quick" % pid,
                "thorough_cmd": "./check %s --tier thorough" % pid,
                "evidence_file": "evidence/%s.json" % pid,
                "replay_cmd_template": "./check %s --replay {path}" % pid,
                "engine": "lean4-model",
                "level_claimed": {"category": "proof", "text": c["text"], "design_ref": c["design"]},
                "level_note": c["note"] + " " + COMMON_NOTE,
                "technique": c["technique"],
            })
        else:
            na.append({"property_id": pid,
                       "reason": NOT_YET.get(pid, "not claimed yet: the Lean model and correspondence for this property "
                                                  "are still being built (see DESIGN.md section 3/%s); no other technique is substituted" % pid)})
    m = {
        "version": 1,
        "setup_cmd": "./setup.sh",
        "hooks": {
            "guard": "RIG_VERIF",
            "enable": "no source hooks: all observation is done by wrapping objects and module attributes from the harness; the checks set RIG_VERIF=1 but /repo does not read it",
            "baseline_off_cmd": "python3 tools/baseline_check.py",
            "source_commits": [],
            "add_only": True,
        },
        "engines": [{
            "name": "lean4-model",
            "path": "lean/",
            "serves_properties": [c["property_id"] for c in checks],
            "kind_free_text": "Lean 4 models (RigModel/Model), property theorems (RigModel/Props), generated tables (RigModel/Gen, regenerated from /repo on every run), line-protocol driver (Driver.lean) used by the Python correspondence harness (harness/)",
        }],
        "checks": checks,
        "not_applicable": na,
        "notes": "Entry point ./check <id> [--tier quick|thorough] [--replay file]; exit 0 held, 1 violation, 2 infrastructure. KNOWN_FINDINGS.json lists known/fixed findings.",
    }
    json.dump(m, open(os.path.join(HERE, "MANIFEST.json"), "w"), indent=1)
    print("claimed:", [c["property_id"] for c in checks])


if __name__ == "__main__":
    main()
