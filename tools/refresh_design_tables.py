#!/usr/bin/env python3
"""Re-generate the seed tables between `<!-- seed-table rN -->` and `<!-- end seed-table -->` in DESIGN.md."""
import os
import re
import subprocess
import sys

VERIF = os.path.dirname(os.path.dirname(os.path.abspath(__file__)))
p = os.path.join(VERIF, "DESIGN.md")
s = open(p).read()


def repl(m):
    t = subprocess.run([sys.executable, os.path.join(VERIF, "tools", "seed_table.py"), m.group(1)],
                       stdout=subprocess.PIPE).stdout.decode()
    return "<!-- seed-table %s -->\n%s<!-- end seed-table -->" % (m.group(1), t)


s = re.sub(r"<!-- seed-table (\w+) -->\n.*?<!-- end seed-table -->", repl, s, flags=re.S)
open(p, "w").write(s)
