#!/usr/bin/env python3
"""Build the regression corpus (corpus/<prop>/*.json) from the failing inputs stored with the seeded changes.

Every replay file that a check wrote when it caught a seeded change (seeded/<seed>/<prop>_<key>.json, kind
"failing-input") is a legal input on which SOME plausible change of the implementation misbehaves.  An entry is
taken into the corpus only if, replayed through the current harness against the unchanged /repo, it reports
nothing (no violation, no mismatch, no exception) and is cheap; `check` replays the corpus before its generated
streams, so a change that reintroduces one of those behaviours is found whatever the random streams happen to draw.

usage: tools/mk_corpus.py [PROP ...]      (run from /verif on the unchanged tree; never run by a check)
"""
import glob
import json
import os
import shutil
import subprocess
import sys

VERIF = os.path.dirname(os.path.dirname(os.path.abspath(__file__)))
MAX_PER_SEED, MAX_BYTES, MAX_SECONDS_EACH, MAX_SECONDS_TOTAL = 2, 150000, 6.0, 45.0


def main():
    # --add r9,r10 : only ADD entries from the seeds of those rounds to the existing corpus (nothing is removed,
    #                hand-made entries stay); without it the corpus of a property is rebuilt from all seeds
    add = None
    args = sys.argv[1:]
    if "--add" in args:
        i = args.index("--add")
        add = args[i + 1].split(",")
        del args[i:i + 2]
    props = args or ["C%02d" % i for i in range(1, 21)]
    for prop in props:
        cands = []
        for d in sorted(glob.glob(os.path.join(VERIF, "seeded", prop + "-*"))):
            if add is not None and not any(("-%s" % a) in os.path.basename(d)[3:] and os.path.basename(d)[4:-1] == a for a in add):
                continue
            fs = []
            for f in glob.glob(os.path.join(d, prop + "_*.json")):
                try:
                    j = json.load(open(f))
                except ValueError:
                    continue
                if j.get("kind") != "failing-input" or os.path.getsize(f) > MAX_BYTES:
                    continue
                fs.append((os.path.getsize(f), f, j.get("key", "x")))
            cands += sorted(fs)[:MAX_PER_SEED]
        if not cands:
            print(prop, "no candidates")
            continue
        p = subprocess.run(["./check", prop, "--validate-replays"] + [f for _, f, _ in cands], cwd=VERIF,
                           stdout=subprocess.PIPE, stderr=subprocess.STDOUT)
        res = {}
        for line in p.stdout.decode("utf-8", "replace").splitlines():
            w = line.split()
            if len(w) >= 3 and w[0] in ("OK", "BAD") and w[2].endswith("s"):
                res[w[1]] = (w[0], float(w[2][:-1]), " ".join(w[3:]))
        out = os.path.join(VERIF, "corpus", prop)
        if add is None:
            shutil.rmtree(out, ignore_errors=True)
        os.makedirs(out, exist_ok=True)
        total, kept, bad = 0.0, 0, []
        for _, f, key in sorted(cands, key=lambda c: res.get(c[1], ("BAD", 99, ""))[1]):
            st, secs, why = res.get(f, ("BAD", 99.0, "no result"))
            if st != "OK":
                bad.append("%s (%s)" % (os.path.relpath(f, VERIF), why))
                continue
            if secs > MAX_SECONDS_EACH or total + secs > (MAX_SECONDS_TOTAL if add is None else 15.0):
                continue
            total += secs
            kept += 1
            name = "%s__%s.json" % (os.path.basename(os.path.dirname(f)), "".join(ch if ch.isalnum() or ch in "-_." else "_" for ch in key)[:60])
            shutil.copy(f, os.path.join(out, name))
        print("%s: %d candidates, %d kept (%.1fs), %d do not replay cleanly on the unchanged tree" % (prop, len(cands), kept, total, len(bad)))
        for b in bad[:40]:
            print("   not clean:", b)


if __name__ == "__main__":
    main()
